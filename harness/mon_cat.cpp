// C14 (catalogue integrity) and C15 (unprovided evaluators fail safe): finite spaces, enumerated completely.
#include "model.hpp"
#include "oracle/oracle.hpp"
using namespace vh;
using namespace MASA;


static double cb_d(double) { return 2.5; }
static long double cb_l(long double) { return 2.5L; }
template <class S> static FP<S> cbK();
template <> FP<double> cbK<double>() { return cb_d; }
template <> FP<long double> cbK<long double>() { return cb_l; }

static std::string normal_form(const std::string& s) {
  std::string o; for (char c : s) { if (c == '-' || c == ' ') continue; o += (c >= 'A' && c <= 'Z') ? char(c - 'A' + 'a') : c; } return o;
}
template <class S> static std::vector<std::string> printid_names() {
  CAP.begin(); masa_printid<S>(); std::string out = CAP.end();
  std::vector<std::string> v; bool in = false;
  for (auto& l : split(out, '\n')) {
    if (l.find("*----") != std::string::npos) { if (in) break; in = true; continue; }
    if (in && !l.empty()) v.push_back(l);
  }
  return v;
}

// an interior point of the solution's domain
static void interior(Rng& r, const std::string& sol, int n, long double* x) {
  const orc::Sol* o = orc::find(sol);
  if (o) { o->point(r, x, o->nargs); for (int i = o->nargs; i < 4; i++) x[i] = r.uni(0.1L, 1.0L); return; }
  for (int i = 0; i < 4; i++) x[i] = r.uni(0.1L, 0.9L);
  if (sol == "sod_1d") { x[0] = r.uni(-0.5L, 0.5L); x[1] = r.uni(0.2L, 1.0L); }
  (void)n;
}

// policy 0: one handle re-used for every entry (the re-used handle is the current one); 1: three handles used round-robin (the re-used
// handle is NOT the current one); 2: a fresh handle per entry, in a shuffled order; 3: every entry initialised on its handle, its parameters
// purged / changed, then initialised AGAIN on the same handle with the same name ("immediately after masa_init" must not depend on what the
// handle held before); 4 (double only): masa_init and masa_get_name through the C entry points, the name read into one re-used, dirty buffer
template <class S> static void c14(Rng& r, std::vector<std::string> names, int policy, int npts) {
  const std::string P = ST<S>::name();
  Model<S> m;
  if (policy == 2) for (size_t i = names.size(); i > 1; i--) std::swap(names[i - 1], names[(size_t)r.below((int)i)]);
  long seq = 0;
  for (auto& name : names) {
    const SolSpec* sp = find_sol(name);
    const std::string H = policy == 0 ? "cat" : policy == 1 ? "pool-" + std::to_string(seq % 3) : "own-" + std::to_string(seq);
    seq++;
    if (policy == 3) {
      Outcome o0 = guarded([&] { masa_init<S>("again", name); }, false);
      if (!o0.fatal && !o0.abnormal && sp && !sp->fixture) {
        hist("modify '" + name + "' on handle 'again' before initialising it again");
        CAP.begin();
        if (name != "sod_1d" || kExceptions) masa_purge_default_param<S>();
        for (auto& vn : vec_names<S>()) { std::vector<S> e3(3, S(7)); masa_set_vec<S>(vn, e3); }
        CAP.end();
      }
    }
    const std::string H3 = policy == 3 ? "again" : H;
    hist(std::string(policy == 4 ? "C masa_init" : "masa_init<" + P + ">") + "(\"" + H3 + "\",\"" + name + "\")");
    Outcome o = guarded([&] { if (policy == 4) ::masa_init(H3.c_str(), name.c_str()); else masa_init<S>(H3, name); }, false);
    LOG.count("catalogue_inits", 1);
    if (policy == 4 && !o.fatal && !o.abnormal) {
      static char cbuf[256]; static bool dirty = false;
      if (!dirty) { memset(cbuf, '#', sizeof cbuf - 1); cbuf[sizeof cbuf - 1] = 0; dirty = true; }   // never cleaned between entries
      CAP.begin(); int rc = ::masa_get_name(cbuf); CAP.end();
      if (rc != 0 || name != cbuf) hviol("C14", "c-get_name-differs:" + name, "C masa_get_name returned '" + std::string(cbuf).substr(0, 60) + "' after C masa_init(\"" + name + "\")");
    }
    if (o.fatal || o.abnormal) { hviol("C14", "listed-name-not-initialisable:" + name, "masa_init(\"" + name + "\") failed although masa_printid lists it"); continue; }
    std::string got;
    const bool hop14 = r.below(3) == 0;
    if (hop14) { WORKER.run([&] { CAP.begin(); masa_get_name<S>(&got); int d0; masa_get_dimension<S>(&d0); CAP.end(); }); LOG.count("calls_after_init_made_from_a_second_thread", 1); }
    else masa_get_name<S>(&got);
    if (got != name) hviol("C14", "get_name-differs:" + name, "masa_get_name returned '" + got + "' after masa_init(\"" + name + "\")");
    LOG.distinct("entries_checked", name + "<" + P + ">");
    if (!sp) { LOG.distinct("entries_unknown_to_spec", name); continue; }
    if (sp->fixture) continue;
    CAP.begin(); int sc = masa_sanity_check<S>(); CAP.end();
    if (sc != 0) hviol("C14", "sanity_check-after-init:" + name, "masa_sanity_check returned " + std::to_string(sc) + " right after masa_init");
    CAP.begin(); int ip = masa_init_param<S>(); CAP.end();
    if (ip != 0) hviol("C14", "init_param-after-init:" + name, "masa_init_param returned " + std::to_string(ip) + " right after masa_init");
    int dim = -1; masa_get_dimension<S>(&dim);
    if (dim != sp->dim) hviol("C14", "dimension:" + name, "masa_get_dimension = " + std::to_string(dim) + ", evaluators take " + std::to_string(sp->dim) + " coordinates");
    for (auto& id : sp->prov) {
      const Ev& e = api()[ev_index(id)];
      for (int k = 0; k < npts; k++) {
        long double x[4]; interior(r, name, e.n, x);
        S a[4]; for (int i = 0; i < 4; i++) a[i] = (S)x[i];
        int idx = e.kind == KI ? 1 + k % (e.n >= 4 ? 3 : e.n) : (e.kind == KK ? k % 7 : 0);
        hist("masa_eval_" + e.id + "<" + P + "> on " + name + " (defaults)");
        CAP.begin(); S v = call_ev<S>(e, a, idx, cbK<S>()); std::string out = CAP.end();
        CNT.evals++;
        std::vector<long double> pv(x, x + std::max(1, e.n));
        std::string det = JObj().str("solution", name).str("evaluator", e.id).num("value", (long double)v).raw("point", jarr(pv)).num("index", idx).str("stdout", out.substr(0, 160)).done();
        if (!std::isfinite((long double)v)) hviol("C14", "documented-evaluator-not-finite:" + name + ":" + e.id, "documented evaluator returned NaN/inf at an interior point with default parameters", det);
        else if (biteq(v, sentinel<S>())) hviol("C14", "documented-evaluator-returns-sentinel:" + name + ":" + e.id, "documented evaluator returned the -1.33 sentinel", det);
        if (out.find("MASA ERROR") != std::string::npos) hviol("C14", "documented-evaluator-prints-error:" + name + ":" + e.id, "documented evaluator printed an error", det);
        if (k == 0 && name == "euler_2d") LOG.sample(det);
      }
    }
  }
}

static long g_repeat = 12000, n_persist = 0;
template <class S> static void c15(Rng& r, const std::vector<std::string>& names, int part, int nparts) {
  const std::string P = ST<S>::name();
  Model<S> m;
  int si = 0;
  for (auto& name : names) {
    if ((si++ % nparts) != part) continue;
    const SolSpec* sp = find_sol(name);
    if (!sp) continue;
    hist("masa_init<" + P + ">(\"c15\",\"" + name + "\")");
    masa_init<S>("c15", name);
    Snap<S> before = observe<S>();
    std::string list0 = listing<S>();
    for (auto& e : api()) {
      if (sp->prov.count(e.id) || sp->unspec.count(e.id)) continue;
      LOG.distinct("unprovided_pairs", name + "|" + e.id + "|" + P);
      for (int k = 0; k < 4; k++) {
        S a[4]; for (int i = 0; i < 4; i++) a[i] = (S)r.uni(-2.0L, 2.0L);
        int idx = (e.kind == KI) ? 1 + r.below(3) : r.below(7);
        hist("masa_eval_" + e.id + "<" + P + "> on " + name + " [not provided]");
        // "at arbitrary arguments": the callback overloads also with a null function pointer (a stub never looks at it)
        const bool nullcb = e.kind == KF && k % 2 == 1;
        if (nullcb) { hist("  ... with a NULL callback"); LOG.count("unprovided_callback_evaluators_called_with_a_null_pointer", 1); }
        S v; std::string out;
        if (k == 2 && r.below(4) == 0) { WORKER.run([&] { CAP.begin(); v = call_ev<S>(e, a, idx, cbK<S>()); out = CAP.end(); }); LOG.count("stub_calls_made_from_a_second_thread", 1); }
        else { CAP.begin(); v = call_ev<S>(e, a, idx, nullcb ? (FP<S>) nullptr : cbK<S>()); out = CAP.end(); }
        CNT.evals++;
        std::string det = JObj().str("solution", name).str("evaluator", e.id).str("precision", P).num("returned", (long double)v).str("stdout", out.substr(0, 160)).done();
        if (!biteq(v, sentinel<S>())) hviol("C15", "unprovided-evaluator-returned-a-value:" + name + ":" + e.id, "an evaluator the solution does not provide returned " + sval(v) + " instead of -1.33", det);
        if (out.find("MASA ERROR") == std::string::npos) hviol("C15", "unprovided-evaluator-silent:" + name + ":" + e.id, "no 'MASA ERROR'/'SMASA ERROR' line was printed", det);
      }
      // no other effect: parameters and registry untouched
      Snap<S> after = observe<S>();
      bool same = after.sc.size() == before.sc.size() && after.vec.size() == before.vec.size();
      if (same) for (auto& kv : before.sc) if (!after.sc.count(kv.first) || !biteq(after.sc[kv.first], kv.second)) same = false;
      if (same) for (auto& kv : before.vec) if (!after.vec.count(kv.first) || after.vec[kv.first].size() != kv.second.size()) same = false;
      if (!same) { hviol("C15", "unprovided-evaluator-altered-parameters:" + name + ":" + e.id, "parameters changed after calling an unprovided evaluator"); before = after; }
      if (masa_verif_selected_handle<S>() != "c15" || masa_verif_registry_size<S>() != 1 || listing<S>() != list0)
        hviol("C15", "unprovided-evaluator-altered-registry:" + name + ":" + e.id, "registry/selection changed after calling an unprovided evaluator");
    }
    // persistence: the SAME unprovided evaluator called many thousand times in a row on this instance must print its line every single time
    {
      std::vector<int> un;
      for (size_t i = 0; i < api().size(); i++) if (!sp->prov.count(api()[i].id) && !sp->unspec.count(api()[i].id)) un.push_back((int)i);
      if (!un.empty()) {
        const Ev& e = api()[(size_t)un[(size_t)r.below((int)un.size())]];
        S a[4]; for (int i = 0; i < 4; i++) a[i] = (S)r.uni(-2.0L, 2.0L);
        // the first solution of every shard: a hundred times as many (beyond a million), cycling over several stubs
        const long reps = (n_persist++ == 0) ? g_repeat * 100 : g_repeat;
        hist("masa_eval_" + e.id + "<" + P + "> on " + name + " [not provided] x " + std::to_string(reps) + " in a row");
        for (long k = 0; k < reps; k++) {
          CAP.begin(); S v = call_ev<S>(e, a, 1, cbK<S>()); std::string out = CAP.end();
          if (!biteq(v, sentinel<S>()) || out.find("MASA ERROR") == std::string::npos) {
            hviol("C15", "unprovided-evaluator-silent-after-repeats:" + name, "call number " + std::to_string(k + 1) + " in a row of an unprovided evaluator returned " + sval(v) + " and printed '" + out.substr(0, 60) + "'",
                  JObj().str("solution", name).str("evaluator", e.id).num("call_number", (long)(k + 1)).done());
            break;
          }
        }
        CNT.evals += reps;
        LOG.count("consecutive_identical_stub_calls", reps);
      }
    }
  }
}

int main(int argc, char** argv) {
  LOG.open(getarg(argc, argv, "--out"));
  CAP.install();
  install_crash_handlers();
  uint64_t seed = strtoull(getarg(argc, argv, "--seed", "1").c_str(), 0, 10);
  std::string mode = getarg(argc, argv, "--mode", "c14"), prec = getarg(argc, argv, "--prec", "d");
  g_repeat = atol(getarg(argc, argv, "--repeat", "12000").c_str());
  int part = atoi(getarg(argc, argv, "--shard", "0").c_str()), nparts = atoi(getarg(argc, argv, "--parts", "1").c_str());
  Rng r(seed, 5100 + (uint64_t)part);
  // the catalogue must read the same whether it is listed before or after the first masa_init of a precision: in the c14 shards the
  // precision under test initialises one solution BEFORE its catalogue is listed for the first time, the other precision lists first
  if (mode == "c14") { CAP.begin(); if (prec == "d") masa_init<double>("pre", "euler_1d"); else masa_init<long double>("pre", "heateq_2d_steady_const"); CAP.end(); }
  std::vector<std::string> nd = printid_names<double>(), nl = printid_names<long double>();
  if (mode == "c14") {
    if (nd != nl) hviol("C14", "catalogues-differ", "masa_printid<double> and masa_printid<long double> list different catalogues (" + std::to_string(nd.size()) + " vs " + std::to_string(nl.size()) + " names)");
    std::set<std::string> seen;
    for (auto& n : nd) {
      if (!seen.insert(n).second) hviol("C14", "duplicate-name:" + n, "masa_printid lists '" + n + "' twice");
      if (normal_form(n) != n) hviol("C14", "name-not-normal-form:" + n, "catalogue name '" + n + "' is not its own normal form (masa_init could never select it)");
      LOG.distinct("catalogue_names", n);
    }
    for (auto& s : catalogue()) if (!seen.count(s.name)) LOG.distinct("spec_entries_missing_from_build", s.name);
    for (int policy = 0; policy < 5; policy++) {
      if (prec == "d") c14<double>(r, nd, policy, policy == 0 ? 16 : 3); else if (policy < 4) c14<long double>(r, nl, policy, policy == 0 ? 16 : 3);
      // the catalogue listing is the same whenever it is asked for (before any masa_init, after some, after all), in both precisions
      std::vector<std::string> nd2 = printid_names<double>(), nl2 = printid_names<long double>();
      if (nd2 != nd || nl2 != nl)
        hviol("C14", "catalogue-listing-changed", "masa_printid lists " + std::to_string(nd2.size()) + " (double) / " + std::to_string(nl2.size()) + " (long double) names after " + std::to_string(policy + 1) +
              " passes of masa_init, " + std::to_string(nd.size()) + " / " + std::to_string(nl.size()) + " before any");
      LOG.count("catalogue_listings_compared", 1);
    }
  } else {
    if (prec == "d") c15<double>(r, nd, part, nparts); else c15<long double>(r, nl, part, nparts);
  }
  LOG.count("steps", CNT.steps); LOG.count("evaluator_calls", CNT.evals); LOG.count("snapshots_compared", CNT.snapshots);
  flush_viol_counts();
  end_ok();
  return 0;
}
