// C13 monitor: solution-name resolution ignores case, '-' and ' ' and nothing else; failure registers nothing;
// handles are used verbatim.
#include "common.hpp"
using namespace vh;
using namespace MASA;

static const char* PROP = "C13";

// the independent 3-line normaliser the property states
static std::string normal_form(const std::string& s) {
  std::string o;
  for (char c : s) { if (c == '-' || c == ' ') continue; o += (c >= 'A' && c <= 'Z') ? char(c - 'A' + 'a') : c; }
  return o;
}

static std::vector<std::string> printid_names() {
  CAP.begin(); masa_printid<double>(); std::string out = CAP.end();
  std::vector<std::string> v; bool in = false;
  for (auto& l : split(out, '\n')) {
    if (l.find("*----") != std::string::npos) { if (in) break; in = true;
      // the first name follows the opening rule on the next line
      continue; }
    if (in && !l.empty()) v.push_back(l);
  }
  return v;
}

static std::string decorate(Rng& r, const std::string& name, std::string& how) {
  std::string s;
  // case flips
  bool flip = r.below(3) != 0;
  for (char c : name) s += (flip && c >= 'a' && c <= 'z' && r.below(3) == 0) ? char(c - 'a' + 'A') : c;
  // inserted runs of separators
  int runs = r.below(5);   // 0..4 runs
  // one string in sixty carries a very long run (8200..70000 separators): "however often they occur"
  if (r.below(60) == 0) { std::string big((size_t)(8200 + r.below(61800)), r.coin() ? ' ' : '-'); s.insert(r.coin() ? s.size() : (size_t)r.below((int)s.size() + 1), big); how += "[very-long-run]"; }
  static const char* RUNS[] = {"-", " ", "--", "  ", "- ", " -", "- -", " - ", "---", "   ", "-- -", "  - "};
  for (int k = 0; k < runs; k++) {
    std::string run = RUNS[r.below(12)];
    int where = s.empty() ? 0 : r.below(4);
    size_t pos;
    if (where == 0) pos = 0;                       // leading
    else if (where == 1) pos = s.size();           // trailing
    else if (where == 2) { size_t u = s.find('_', (size_t)r.below((int)s.size())); pos = (u == std::string::npos) ? (size_t)r.below((int)s.size() + 1) : u + (r.coin() ? 0 : 1); }  // adjacent to '_'
    else pos = (size_t)r.below((int)s.size() + 1);
    s.insert(pos, run);
    how += "[" + run + "@" + std::to_string(pos) + "]";
  }
  return s;
}

static std::string negative(Rng& r, const std::vector<std::string>& names, std::string& how) {
  const std::string& n = names[(size_t)r.below((int)names.size())];
  std::string s = n;
  switch (r.below(14)) {
    case 13: {
      // the name wrapped in a matching pair of characters (quotes as in a namelist or input file, brackets, a trailing newline ...): not a name (seeded C13-m11)
      how = "wrapped-in-a-pair";
      static const char* PAIRS[] = {"''", "\"\"", "``", "()", "[]", "{}", "<>", "||", "**", "//", "__", "..", "::", "##", "\n\n", "\t\t", "\r\n", "\"'", "' ", " \"", "%%", ",,", ";;"};
      const char* pr = PAIRS[r.below(23)];
      std::string body = n;
      if (r.coin()) { for (char& c : body) if (c >= 'a' && c <= 'z' && r.below(3) == 0) c = char(c - 'a' + 'A'); }
      int form = r.below(4);   // both ends, left only, right only, both ends with blanks/dashes outside
      s = body;
      if (form != 2) s = std::string(1, pr[0]) + s;
      if (form != 1) s += pr[1];
      if (form == 3) s = (r.coin() ? "- " : " ") + s + (r.coin() ? " " : " -");
      break;
    }
    case 12: {
      // a catalogue name (possibly decorated) followed or interrupted by a NUL byte and more characters: as a std::string it is NOT a name
      how = "embedded-nul";
      size_t p = (size_t)r.below((int)s.size() + 1);
      s.insert(p, 1, '\0');
      if (r.coin()) s += "x";
      break;
    }
    case 9: {
      // two neighbouring characters changed by (+k, -M k): length and the polynomial string hash with multiplier M (31: Java, 33: djb2, 37, 131) are
      // preserved - a comparison by hash alone would accept it
      how = "hash-preserving-pair";
      static const int M[] = {31, 33, 37, 131, 31, 31};
      for (int tries = 0; tries < 200; tries++) {
        size_t p = (size_t)r.below((int)s.size() - 1); int mm = M[r.below(6)], k = r.coin() ? 1 : -1;
        if (r.below(4) == 0) k *= 2;
        int a = (unsigned char)n[p] + k, b = (unsigned char)n[p + 1] - mm * k;
        if (a > 32 && a < 127 && b > 32 && b < 127 && a != '-' && b != '-') { s = n; s[p] = (char)a; s[p + 1] = (char)b; break; }
      }
      if (s == n) s += "#";
      break;
    }
    case 10: {
      // bytes with the top bit set whose low seven bits spell the name (or its upper-case form): not a catalogue name
      how = "high-bit-bytes";
      int cnt = 1 + r.below(3);
      for (int i = 0; i < cnt; i++) { size_t p = (size_t)r.below((int)s.size()); s[p] = (char)((unsigned char)s[p] | 0x80); }
      break;
    }
    case 11: {
      // other white space and separators the normal form does not remove
      how = "other-whitespace";
      static const char W[] = {'\t', '\n', '\v', '\f', '\r', '_', '.', '+'};
      s.insert((size_t)r.below((int)s.size() + 1), 1, W[r.below(8)]);
      break;
    }
    case 0: { how = "random"; int L = r.below(24); s.clear(); for (int i = 0; i < L; i++) s += "abcdefghijklmnopqrstuvwxyz_0123456789 -"[r.below(39)]; break; }
    case 1: { how = "delete1"; size_t p; int guard = 0; do { p = (size_t)r.below((int)s.size()); } while ((s[p] == '-' || s[p] == ' ') && ++guard < 50); s.erase(p, 1); break; }
    case 2: { how = "insert1"; s.insert((size_t)r.below((int)s.size() + 1), 1, "abcxyz_019.\t/"[r.below(13)]); break; }
    case 3: { how = "subst1"; size_t p = (size_t)r.below((int)s.size()); char c = "abcxyz_019.\t"[r.below(12)]; if (c == s[p]) c = '#'; s[p] = c; break; }
    case 4: { how = "underscore-removed"; size_t p = s.find('_'); if (p != std::string::npos) s.erase(p, 1); else s += "_"; break; }
    case 5: { how = "underscore-doubled"; size_t p = s.find('_'); if (p != std::string::npos) s.insert(p, "_"); else s += "_"; break; }
    case 6: { how = "tab-or-dot-separator"; s.insert((size_t)r.below((int)s.size() + 1), 1, r.coin() ? '\t' : '.'); break; }
    case 7: { how = "empty-or-separators-only"; s = std::string((size_t)r.below(4), r.coin() ? '-' : ' '); break; }
    case 8: { how = "two-names-joined"; s = n + names[(size_t)r.below((int)names.size())]; break; }
  }
  // decorate the near-miss as well: decorations must not rescue it
  if (r.coin()) { std::string h2; s = decorate(r, s, h2); how += h2; }
  return s;
}

template <class S> static std::string listing() { CAP.begin(); masa_list_mms<S>(); return CAP.end(); }

template <class S>
static void run(Rng& r, long n, const std::vector<std::string>& names) {
  std::set<std::string> nameset(names.begin(), names.end());
  const std::string P = ST<S>::name();
  // the registry must not be empty for "unchanged" to be observable
  masa_init<S>("base", names[(size_t)r.below((int)names.size())]);
  std::vector<std::string> handles = {"h0", "h1", "h2", "H 3", "h-4", " h5", "h6 ", "h--7"};
  long npos = 0, nneg = 0, nadj = 0;
  for (long i = 0; i < n; i++) {
    bool want_ok = r.below(5) < 3;
    std::string how, s;
    if (want_ok) s = decorate(r, names[(size_t)r.below((int)names.size())], how);
    else s = negative(r, names, how);
    std::string nf = normal_form(s);
    bool expect_ok = nameset.count(nf) > 0;
    const std::string h = handles[(size_t)r.below((int)handles.size())];
    std::string before = listing<S>();
    std::string selb = masa_verif_selected_handle<S>();
    unsigned szb = masa_verif_registry_size<S>();
    set_ctx("init:" + P, "masa_init<" + P + ">(\"" + h + "\", \"" + s + "\")");
    // a third of the double-precision cases go through the C entry points (same registry): the handle is verbatim there as well
    const bool viaC = sizeof(S) == 8 && r.below(3) == 0 && s.find('\0') == std::string::npos;   // a C string cannot carry a NUL
    if (viaC) { set_ctx("init:C", "C masa_init(\"" + h + "\", \"" + s + "\")"); LOG.count("cases_through_the_C_entry_points", 1); }
    Outcome o = guarded([&] { if (viaC) ::masa_init(h.c_str(), s.c_str()); else masa_init<S>(h, s); }, !expect_ok);
    bool adjacent = s.find("--") != std::string::npos || s.find("  ") != std::string::npos || s.find("- ") != std::string::npos || s.find(" -") != std::string::npos;
    std::string detail = JObj().str("precision", P).str("handle", h).str("input", s).str("normal_form", nf).str("how", how).str("entry", viaC ? "C" : "C++")
                             .raw("expect_ok", expect_ok ? "true" : "false").raw("fatal", o.fatal ? "true" : "false").num("code", o.code).str("stdout", o.out.substr(0, 300)).done();
    if (o.abnormal) { LOG.viol(PROP, "abnormal-termination", "masa_init ended abnormally: " + o.what, detail); continue; }
    if (expect_ok) {
      npos++; if (adjacent) nadj++;
      LOG.distinct("resolved", nf);
      if (o.fatal) {
        // which separator pattern was not removed: a stable, specific key
        std::string kind = adjacent ? "adjacent-separators" : "single-separators-or-case";
        LOG.viol(PROP, "valid-name-rejected:" + kind, "a string that normalises to catalogue name '" + nf + "' was rejected: \"" + s + "\"", detail);
        continue;
      }
      std::string got; masa_get_name<S>(&got);
      if (got != nf) LOG.viol(PROP, "resolved-to-wrong-solution", "\"" + s + "\" resolved to '" + got + "', expected '" + nf + "'", detail);
      if (masa_verif_selected_handle<S>() != h) LOG.viol(PROP, "init-did-not-select-handle", "after masa_init the selected handle is '" + masa_verif_selected_handle<S>() + "'", detail);
      // handle verbatim: the listing shows the handle exactly as given
      std::map<std::string, std::string> m; long cnt;
      if (!parse_list(listing<S>(), m, cnt) || !m.count(h) || m[h] != nf) LOG.viol(PROP, "handle-not-verbatim-in-listing", "listing does not show handle '" + h + "' : " + nf, detail);
    } else {
      nneg++;
      LOG.distinct("rejected-kind", how.substr(0, how.find('[')));
      if (!o.fatal) {
        std::string got; masa_get_name<S>(&got);
        LOG.viol(PROP, "invalid-name-accepted:" + how.substr(0, how.find('[')), "\"" + s + "\" does not normalise to a catalogue name but masa_init accepted it as '" + got + "'", detail);
        if (!kExceptions) continue;   // happened in a child; parent state untouched
        continue;
      }
      if (o.code != 1) LOG.viol(PROP, "fatal-code-not-1", "fatal path reported code " + std::to_string(o.code), detail);
      if (o.out.find("MASA FATAL ERROR") == std::string::npos) LOG.viol(PROP, "fatal-without-message", "no 'MASA FATAL ERROR' printed", detail);
      // registers nothing (observable in-process in the exc build; in the exit() build the process is gone)
      if (kExceptions) {
        if (listing<S>() != before || masa_verif_registry_size<S>() != szb) LOG.viol(PROP, "failed-init-changed-registry", "registry listing changed after a failed masa_init", detail);
        if (masa_verif_selected_handle<S>() != selb) LOG.viol(PROP, "failed-init-changed-selection", "selection changed after a failed masa_init", detail);
      }
    }
    if (i < 3) LOG.sample(detail);
    // handle verbatim: a normalised spelling of the handle must not select it
    if (expect_ok && !o.fatal && r.below(4) == 0 && normal_form(h) != h) {
      std::string hn = normal_form(h);
      bool exists = false; { std::map<std::string, std::string> m; long c; parse_list(listing<S>(), m, c); exists = m.count(hn) > 0; }
      if (!exists) {
        set_ctx("select:" + P, "masa_select_mms<" + P + ">(\"" + hn + "\")");
        Outcome so = guarded([&] { if (viaC) ::masa_select_mms(hn.c_str()); else masa_select_mms<S>(hn); }, true);
        if (!so.fatal) LOG.viol(PROP, "handle-normalised-on-select", "select of '" + hn + "' succeeded although only '" + h + "' was registered", detail);
        Outcome so2 = guarded([&] { if (viaC) ::masa_select_mms(h.c_str()); else masa_select_mms<S>(h); }, false);
        if (so2.fatal) LOG.viol(PROP, "verbatim-handle-not-selectable", "select of '" + h + "' failed", detail);
        LOG.count("handle_verbatim_checks", 1);
      }
    }
  }
  LOG.count("valid_decorated_strings", npos);
  LOG.count("valid_with_adjacent_separators", nadj);
  LOG.count("invalid_strings", nneg);
}

int main(int argc, char** argv) {
  LOG.open(getarg(argc, argv, "--out"));
  CAP.install();
  install_crash_handlers();
  uint64_t seed = strtoull(getarg(argc, argv, "--seed", "1").c_str(), 0, 10);
  long n = atol(getarg(argc, argv, "--n", "1000").c_str());
  int shard = atoi(getarg(argc, argv, "--shard", "0").c_str());
  std::string prec = getarg(argc, argv, "--prec", "d");
  Rng r(seed, 1000 + (uint64_t)shard);
  std::vector<std::string> names = printid_names();
  if (names.size() < 5) harness_fail("masa_printid listed fewer than 5 names");
  // every name must be its own normal form for the oracle to be meaningful (C14 judges that; here we skip others)
  std::vector<std::string> ok;
  for (auto& s : names) if (normal_form(s) == s) ok.push_back(s);
  LOG.count("catalogue_names", (long long)ok.size());
  if (prec == "d") run<double>(r, n, ok); else run<long double>(r, n, ok);
  end_ok();
  return 0;
}
