// Shared harness plumbing: PRNG, JSON-lines event log, per-call stdout capture, the API table
// (generic invocation of every public masa_eval_* overload in both precisions), the catalogue spec.
#pragma once
#include <masa.h>
#include <cstdint>
#include <cstdio>
#include <cstdlib>
#include <cstring>
#include <cmath>
#include <fcntl.h>
#include <fstream>
#include <iostream>
#include <map>
#include <set>
#include <sstream>
#include <string>
#include <sys/mman.h>
#include <sys/stat.h>
#include <sys/wait.h>
#include <unistd.h>
#include <vector>

namespace vh {

// ---------------------------------------------------------------- PRNG (xoshiro256**, splitmix seeding)
struct Rng {
  uint64_t s[4];
  static uint64_t sm(uint64_t& x) { uint64_t z = (x += 0x9e3779b97f4a7c15ULL); z = (z ^ (z >> 30)) * 0xbf58476d1ce4e5b9ULL; z = (z ^ (z >> 27)) * 0x94d049bb133111ebULL; return z ^ (z >> 31); }
  explicit Rng(uint64_t seed = 1, uint64_t stream = 0) { uint64_t x = seed * 0x2545F4914F6CDD1DULL + stream * 0x9E3779B97F4A7C15ULL + 0x1234567; for (int i = 0; i < 4; i++) s[i] = sm(x); }
  static uint64_t rotl(uint64_t x, int k) { return (x << k) | (x >> (64 - k)); }
  uint64_t next() { uint64_t r = rotl(s[1] * 5, 7) * 9, t = s[1] << 17; s[2] ^= s[0]; s[3] ^= s[1]; s[1] ^= s[2]; s[0] ^= s[3]; s[2] ^= t; s[3] = rotl(s[3], 45); return r; }
  // uniform in [0,1) with a full 64-bit mantissa (so long double draws are not double-representable)
  long double u01() { return (long double)(next() >> 0) * 0x1p-64L; }
  long double uni(long double a, long double b) { return a + (b - a) * u01(); }
  int below(int n) { return (int)(next() % (uint64_t)n); }
  bool coin() { return next() & 1; }
  long double sgn() { return coin() ? 1.0L : -1.0L; }
  // magnitude in [a,b] with random sign
  long double pm(long double a, long double b) { return sgn() * uni(a, b); }
};

// ---------------------------------------------------------------- JSON helpers
inline std::string jesc(const std::string& s) {
  std::string o;
  for (unsigned char c : s) {
    if (c == '"' || c == '\\') { o += '\\'; o += (char)c; }
    else if (c == '\n') o += "\\n";
    else if (c == '\t') o += "\\t";
    else if (c < 0x20 || c >= 0x7f) { char b[8]; snprintf(b, sizeof b, "\\u%04x", c); o += b; }
    else o += (char)c;
  }
  return o;
}
inline std::string jstr(const std::string& s) { return "\"" + jesc(s) + "\""; }
inline std::string jnum(long double v) {
  if (!(v == v)) return "\"nan\"";
  if (v > 1.7e308L) return "\"inf\"";   // also long double values beyond double range
  if (v < -1.7e308L) return "\"-inf\"";
  char b[64]; snprintf(b, sizeof b, "%.21Lg", v); return b;
}
inline std::string jnum(double v) { return jnum((long double)v); }
inline std::string jnum(int v) { return std::to_string(v); }
inline std::string jnum(long v) { return std::to_string(v); }
inline std::string jnum(long long v) { return std::to_string(v); }
inline std::string jnum(unsigned long v) { return std::to_string(v); }

struct JObj {
  std::string s; bool first = true;
  JObj& raw(const std::string& k, const std::string& v) { s += (first ? "" : ","); first = false; s += jstr(k) + ":" + v; return *this; }
  JObj& str(const std::string& k, const std::string& v) { return raw(k, jstr(v)); }
  template <class T> JObj& num(const std::string& k, T v) { return raw(k, jnum(v)); }
  std::string done() const { return "{" + s + "}"; }
};
template <class T> inline std::string jarr(const std::vector<T>& v) { std::string o = "["; for (size_t i = 0; i < v.size(); i++) { if (i) o += ","; o += jnum(v[i]); } return o + "]"; }
inline std::string jarrs(const std::vector<std::string>& v) { std::string o = "["; for (size_t i = 0; i < v.size(); i++) { if (i) o += ","; o += jstr(v[i]); } return o + "]"; }
inline std::string jarr_raw(const std::vector<std::string>& v) { std::string o = "["; for (size_t i = 0; i < v.size(); i++) { if (i) o += ","; o += v[i]; } return o + "]"; }

// ---------------------------------------------------------------- event log (one JSON object per line)
struct Log {
  FILE* f = nullptr;
  long nviol = 0;
  void open(const std::string& path) { f = fopen(path.c_str(), "a"); if (!f) { perror("log"); _exit(2); } }
  void line(const std::string& j) { fputs(j.c_str(), f); fputc('\n', f); fflush(f); }
  // a violation: stable key (goes through known-findings matching) + free detail object
  void viol(const std::string& prop, const std::string& key, const std::string& msg, const std::string& detail_json = "{}") {
    nviol++;
    line(JObj().str("t", "viol").str("prop", prop).str("key", key).str("msg", msg).raw("detail", detail_json).done());
  }
  void stat(const std::string& name, const std::string& json) { line(JObj().str("t", "stat").str("name", name).raw("v", json).done()); }
  void sample(const std::string& json) { line(JObj().str("t", "sample").raw("v", json).done()); }
  void count(const std::string& name, long long n) { line(JObj().str("t", "count").str("name", name).num("n", n).done()); }
  void distinct(const std::string& name, const std::string& item) { line(JObj().str("t", "distinct").str("name", name).str("item", item).done()); }
};
extern Log LOG;

// ---------------------------------------------------------------- stdout capture
// The library prints with std::cout and printf. fd 1 is redirected to a memfd for the whole life of the
// harness; Capture marks an offset before a call and returns what was appended by the call.
struct Capture {
  int fd = -1; off_t mark = 0;
  void install() {
    fd = memfd_create("masa-stdout", 0);
    if (fd < 0) { perror("memfd"); _exit(2); }
    fflush(stdout); std::cout.flush();
    dup2(fd, 1);
    setvbuf(stdout, nullptr, _IOFBF, 1 << 16);
  }
  void begin() {
    std::cout.flush(); fflush(stdout);
    off_t end = lseek(fd, 0, SEEK_END);
    if (end > (8 << 20)) { if (ftruncate(fd, 0) != 0) {} lseek(fd, 0, SEEK_SET); end = 0; }
    mark = end;
  }
  std::string end() {
    std::cout.flush(); fflush(stdout);
    off_t e = lseek(fd, 0, SEEK_END);
    std::string out;
    if (e > mark) { out.resize((size_t)(e - mark)); ssize_t r = pread(fd, &out[0], out.size(), mark); if (r < 0) out.clear(); else out.resize((size_t)r); }
    mark = e;
    return out;
  }
};
extern Capture CAP;

// ---------------------------------------------------------------- scalar traits / bits
template <class S> struct ST;
template <> struct ST<double> { static const char* name() { return "double"; } static constexpr int id = 0; };
template <> struct ST<long double> { static const char* name() { return "long double"; } static constexpr int id = 1; };

inline std::string bits(double v) { uint64_t u; memcpy(&u, &v, 8); char b[32]; snprintf(b, sizeof b, "%016llx", (unsigned long long)u); return b; }
inline std::string bits(long double v) { unsigned char c[16] = {0}; memcpy(c, &v, 10); char b[40]; for (int i = 0; i < 10; i++) snprintf(b + 2 * i, 3, "%02x", c[9 - i]); return b; }
template <class S> inline bool biteq(S a, S b) { return bits(a) == bits(b); }

// ---------------------------------------------------------------- the API table
enum Kind { KS, KI, KF, KK, KZ };
struct Ev {
  std::string name;   // e.g. source_rho_u
  Kind kind; int n;   // number of Scalar arguments
  std::string id;     // source_rho_u/S2
  void* fd; void* fl; // function pointers for double / long double
};
const std::vector<Ev>& api();
int ev_index(const std::string& id);   // -1 if unknown

template <class S> using FP = S (*)(S);
// invoke evaluator e for precision S: a[0..n-1] Scalar args, idx the int arg (kinds I,K), fp the callback (kind F)
template <class S> S call_ev(const Ev& e, const S* a, int idx, FP<S> fp);

// ---------------------------------------------------------------- catalogue spec
struct SolSpec { std::string name; int dim; bool fixture; std::set<std::string> prov, unspec; };
const std::vector<SolSpec>& catalogue();          // parsed from $VERIF_SPEC/catalogue.txt
const SolSpec* find_sol(const std::string& name);

// ---------------------------------------------------------------- misc
std::vector<std::string> split(const std::string& s, char c);
inline std::string getarg(int argc, char** argv, const std::string& k, const std::string& def = "") {
  for (int i = 1; i + 1 < argc; i++) if (k == argv[i]) return argv[i + 1];
  return def;
}
inline bool hasflag(int argc, char** argv, const std::string& k) { for (int i = 1; i < argc; i++) if (k == argv[i]) return true; return false; }

// parameter names learnt at the API boundary: parse the stdout of masa_display_param
template <class S> std::vector<std::string> param_names();
template <class S> std::vector<std::string> vec_names();
// parse masa_list_mms output -> handle -> solution ; returns false on malformed output
bool parse_list(const std::string& out, std::map<std::string, std::string>& m, long& count);

}  // namespace vh

// ---------------------------------------------------------------- crash context
namespace vh {
// the harness states what it is about to do; if the code under test kills the process (signal, sanitizer
// abort, exit()) the context is written to the event log so the violation names its history.
void set_ctx(const std::string& ctxkey, const std::string& ctx);
void install_crash_handlers();
[[noreturn]] void crash_now(const char* what);   // async-signal-safe: writes the crash event with the current context and ends the process (exit status 3)
void end_ok();                       // writes the "end" event: workload completed
[[noreturn]] void harness_fail(const std::string& msg);   // exit 2
}

// ---------------------------------------------------------------- fatal paths
#include <config.h>   // the library build's config.h: tells us whether masa_exit throws or exits
#include <functional>
namespace vh {
#ifdef MASA_EXCEPTIONS
constexpr bool kExceptions = true;
#else
constexpr bool kExceptions = false;
#endif
struct Outcome {
  bool fatal = false;      // the call ended in masa_exit(): thrown int / process exit
  int code = 0;            // thrown value or exit status
  bool abnormal = false;   // killed by a signal, foreign exception, ...
  std::string what;        // description when abnormal
  std::string out;         // stdout of the call
};
// Run f. exc build: in-process under try/catch. exit() build: in-process when expect_fatal is false (a wrong
// exit() then kills the shard and is reported through the crash context), in a forked child when true.
Outcome guarded(const std::function<void()>& f, bool expect_fatal);
// always run f in a forked child (pristine copy of the current global state); child's exit status observed
Outcome in_child(const std::function<void()>& f);
void child_mode();   // called in a forked child: the at-exit crash hook is disarmed
}

// ---------------------------------------------------------------- environment monitors
#include <cfenv>
#include <condition_variable>
#include <mutex>
#include <thread>
#include <xmmintrin.h>
namespace vh {
// what a library call must leave as it found it: SSE control bits (rounding, flush-to-zero, denormals-are-zero, exception masks; the sticky
// exception FLAGS are ignored), the x87 control word, the C rounding mode
struct FpEnv {
  unsigned mxcsr; unsigned short x87cw; int round;
  bool operator==(const FpEnv& o) const { return mxcsr == o.mxcsr && x87cw == o.x87cw && round == o.round; }
  std::string str() const { char b[96]; snprintf(b, sizeof b, "mxcsr=%#x x87cw=%#x round=%d", mxcsr, (unsigned)x87cw, round); return b; }
};
inline FpEnv fpenv_now() { FpEnv e; e.mxcsr = _mm_getcsr() & ~0x3fu; unsigned short cw; __asm__ __volatile__("fnstcw %0" : "=m"(cw)); e.x87cw = cw; e.round = fegetround(); return e; }

// A persistent second thread that executes closures one at a time while the caller waits: the library is never used concurrently, but
// it is used from a thread other than the one that initialised / selected (state kept per thread would show).
class Worker {
 public:
  void run(const std::function<void()>& f) {
    std::unique_lock<std::mutex> lk(m_);
    if (!started_) { started_ = true; th_ = std::thread([this] { loop(); }); th_.detach(); }
    job_ = &f; has_job_ = true; done_ = false; thrown_ = false;
    cv_.notify_all();
    cv_.wait(lk, [this] { return done_; });
    if (thrown_) { int c = code_; lk.unlock(); throw c; }   // masa_exit in the exceptions build: re-thrown in the calling thread
  }
 private:
  void loop() {
    std::unique_lock<std::mutex> lk(m_);
    for (;;) {
      cv_.wait(lk, [this] { return has_job_; });
      has_job_ = false;
      const std::function<void()>* j = job_;
      lk.unlock();
      bool th = false; int code = 0;
      try { (*j)(); } catch (int c) { th = true; code = c; }
      lk.lock();
      thrown_ = th; code_ = code;
      done_ = true;
      cv_.notify_all();
    }
  }
  std::mutex m_; std::condition_variable cv_; std::thread th_;
  const std::function<void()>* job_ = nullptr; bool has_job_ = false, done_ = false, started_ = false, thrown_ = false; int code_ = 0;
};
extern Worker& WORKER;
}
