// Oracle registry: per solution, an admissible-parameter generator, a point generator and the reference
// evaluation (fields written from the documented forms, governing operators written from the PDE text).
#pragma once
#include "jet.hpp"
#include "../common.hpp"
#include <map>
#include <string>
#include <vector>

namespace orc {

typedef Jet<4> J;            // variables: 0,1,2 = x,y,z (or r,z), 3 = t  (unused ones stay constant)
enum { X = 0, Y = 1, Z = 2, T = 3 };

struct Alt { std::string key; EQ ref; };
struct Ref { EQ ref; std::vector<Alt> alts; bool has = false; };

struct Ctx {
  std::string sol;
  std::map<std::string, EQ> P;      // parameter values read back from the library, exact
  EQ x[4];                          // coordinates of the call, in API order
  int nx = 0;
  std::map<std::string, Ref> out;   // evaluator id ("grad_u/I2#1" for direction 1) -> reference
  bool near_branch = false;         // sample too close to a branch of a piecewise model: skipped and counted
  bool fields_only = false;         // the driver wants exact fields / gradients only (no source terms): admissibility of the sources is irrelevant
  mutable std::set<std::string> used;
  const EQ& p(const std::string& n) const {
    auto it = P.find(n);
    if (it == P.end()) vh::harness_fail("oracle for " + sol + " wants parameter '" + n + "' which the library does not register");
    used.insert(n);
    return it->second;
  }
  J var(int i) const { return J::var(x[i], i); }
  void set(const std::string& id, const EQ& v) { Ref& r = out[id]; r.ref = v; r.has = true; }
  // known-finding deviation model: the library is known to return `v` (key names the finding)
  void alt(const std::string& id, const std::string& key, const EQ& v) { out[id].alts.push_back(Alt{key, v}); }
};

struct Draw {
  std::map<std::string, long double> v;
  void set(const std::string& n, long double x) { v[n] = x; }
  long double get(const std::string& n) const { auto it = v.find(n); return it == v.end() ? 0 : it->second; }
};

struct Sol {
  std::string name;
  std::string prop;       // property the semantic comparison is attributed to
  int nargs;              // number of Scalar coordinates of its evaluators
  void (*draw)(vh::Rng&, Draw&, const std::vector<std::string>& names);
  void (*point)(vh::Rng&, long double* x, int n);
  void (*eval)(Ctx&);
  // special values: which parameters may be set to exactly 0 / +-1 / a small integer / the value of another parameter without
  // leaving the admissible set (nullptr: default_special_ok); coordinates from index zero_coord_from on may be set to exactly 0 (-1: none)
  int (*special_ok)(const std::string& name) = nullptr;   // 0: no, 1: zero only, 2: any special value
  int zero_coord_from = 0;
  // incremental cases: how a single parameter may be changed while all others keep their values (nullptr: default_delta_kind)
  //   0 leave alone, 1 independent fresh draw, 2 shrink (x U(-1,1): amplitude of a positive field), 3 grow (x U(1,1.5): dominating offset)
  int (*delta_kind)(const Sol&, const std::string& name) = nullptr;
  // magnitude stretch: 0 none, 1 field groups + wave numbers + lengths + whitelisted positive constants, 2 lengths + constants only
  int stretch = 0;
  // puts one coordinate of the point on a nodal / extremal set of the documented field for the current parameters (a phase at a multiple
  // of pi/2): faults that live on such sets have probability zero under independent draws (nullptr: none)
  void (*nodal)(vh::Rng&, const std::map<std::string, long double>& P, long double* xs, int n) = nullptr;
};
struct PointInfo { bool irregular = false, far_pt = false; std::string kind; };
// next evaluation point: a fresh draw from the solution's domain, structured variants of it (axes, near axes, equal coordinates, coordinates tied
// to the length scale, integers and half-integers, nodal sets, the 5x / 50x box) and variants of the PREVIOUS point (one coordinate redrawn and the
// others bit-identical, only the last coordinate redrawn, a relative nudge of 1e-5..1e-12, one coordinate set to another one's value)
void make_point(vh::Rng& r, const Sol& s, const std::map<std::string, long double>& P, const long double* prev, bool have_prev, bool same_as_prev, long double* xs, PointInfo& info);
int default_special_ok(const std::string& name);
void specialise(vh::Rng& r, const Sol& s, Draw& d, const std::vector<std::string>& names, std::string& what);
int default_delta_kind(const Sol& s, const std::string& name);
inline int delta_kind_of(const Sol& s, const std::string& n) { return s.delta_kind ? s.delta_kind(s, n) : default_delta_kind(s, n); }
// scales groups of parameters by powers of ten without leaving the admissible set; returns a description ("" = nothing done)
void stretch_draw(vh::Rng& r, const Sol& s, Draw& d, const std::vector<std::string>& names, std::string& what);

const std::vector<Sol>& registry();
const Sol* find(const std::string& name);
void add(const Sol& s);

// generic generators
void box_point(vh::Rng& r, long double* x, int n);           // [-2,2]^n
inline long double amp(vh::Rng& r) { return r.pm(0.1L, 2.0L); }
inline long double wav(vh::Rng& r) { return r.pm(0.2L, 3.0L); }
inline long double len(vh::Rng& r) { return r.pm(0.5L, 3.0L); }

// registration hooks of the family translation units
void reg_heat(); void reg_euler(); void reg_ns(); void reg_axi(); void reg_powerlaw(); void reg_misc(); void reg_sa(); void reg_chem();

}  // namespace orc
