// C05: Spalart-Allmaras solutions. No doxygen page gives the equations; the operators are the standard
// RANS/FANS-SA forms the property statement names:
//   eddy viscosity mu_t = rho nu_sa f_v1(chi) (differentiated as a function of position), chi = rho nu_sa/mu,
//   SA transport: D(rho nu)/Dt = c_b1 S~ rho nu - c_w1 f_w rho (nu/d)^2 + (1/sigma)[div((mu + rho nu) grad nu) + c_b2 rho |grad nu|^2]
//   Favre-averaged NS: tau = (mu + mu_t)(grad u + grad u^T - (2/3) div u I), q = -c_p (mu/Pr + mu_t/Pr_t) grad T.
#include "oracle.hpp"
#include "roy.hpp"
namespace orc {
namespace {
bool near(const EQ& a, const EQ& b, double rel) { return absd(a.v - b.v) <= rel * (absd(a.v) + absd(b.v)); }

// ------------------------------------------------------------------ rans_sa (incompressible channel, 1-D in eta)
void draw_rans(vh::Rng& r, Draw& d, const std::vector<std::string>& names) {
  for (auto& n : names) {
    if (n == "cb1") d.set(n, r.uni(0.05L, 0.3L));
    else if (n == "cb2") d.set(n, r.uni(0.3L, 1.0L));
    else if (n == "cv1") d.set(n, r.uni(3.0L, 10.0L));
    else if (n == "cw2") d.set(n, r.uni(0.1L, 0.6L));
    // one case in six: a wall-destruction constant decades above its calibration (f_w then leaves its plateau only for g ~ cw3: seeded C05-m11)
    else if (n == "cw3") d.set(n, r.below(6) == 0 ? powl(10.0L, r.uni(0.5L, 4.0L)) : r.uni(1.0L, 3.0L));
    else if (n == "sigma") d.set(n, r.uni(0.4L, 1.0L));
    else if (n == "kappa") d.set(n, r.uni(0.3L, 0.5L));
    else if (n == "re_tau") d.set(n, r.uni(20.0L, 500.0L));
    else if (n == "cv2") d.set(n, r.uni(0.3L, 1.0L));
    else if (n == "cv3") d.set(n, 0);
    else d.set(n, amp(r));
  }
  d.set("cv3", d.get("cv2") + r.uni(0.1L, 0.5L));
}
void point_rans(vh::Rng& r, long double* x, int) { x[0] = r.uni(0.02L, 0.98L); }

// f_v1, modified S~ (Johnson-Allmaras), r (optionally limited to 10), f_w as first-order-capable jets
struct SA { J fv1, fv2; };
J fv1_of(const J& chi, const EQ& cv1) { J c3 = cube(chi); return c3 / (c3 + cv1 * cv1 * cv1); }

void eval_rans(Ctx& c) {
  J eta = c.var(0);
  EQ etam = EQ::c(6) / EQ::c(10), a1 = EQ::c(2), b1 = EQ::c(1);
  J u = a1 * eta * (1.0 - 0.5 * eta);
  J nu = b1 * eta - (0.5 * (etam + 1.0) * b1 / etam) * eta * eta + (b1 / (3.0 * etam)) * cube(eta);
  const EQ &cb1 = c.p("cb1"), &cb2 = c.p("cb2"), &cv1 = c.p("cv1"), &cw2 = c.p("cw2"), &cw3 = c.p("cw3"), &sigma = c.p("sigma"),
           &kappa = c.p("kappa"), &re = c.p("re_tau"), &cv2 = c.p("cv2"), &cv3 = c.p("cv3");
  J chi = nu * re;
  J fv1 = fv1_of(chi, cv1);
  J nut = nu * fv1;
  // momentum: u''/Re_tau + (nu_t u')' + 1
  EQ Qu = u.H(0, 0) / re + d(nut * D(u, 0), 0) + 1.0;
  // SA
  EQ S = d(u, 0);
  EQ fv2 = 1.0 - chi.v / (1.0 + chi.v * fv1.v);
  EQ k2e2 = kappa * kappa * eta.v * eta.v;
  EQ Sbar = nu.v * fv2 / k2e2;
  EQ lim = -(cv2 * S);
  if (near(Sbar, lim, 1e-6)) { c.near_branch = true; return; }
  EQ St = (Sbar.v >= lim.v) ? S + Sbar : S + S * (cv2 * cv2 * S + cv3 * Sbar) / ((cv3 - 2.0 * cv2) * S - Sbar);
  EQ r = nu.v / (St * k2e2);
  if (absd(r.v - 10) < 1e-5) { c.near_branch = true; return; }
  if (r.v > 10) r = EQ::c(10);
  EQ g = r + cw2 * (powi(r, 6) - r);
  EQ cw36 = powi(cw3, 6);
  EQ fw = g * pow((1.0 + cw36) / (powi(g, 6) + cw36), EQ::c(1) / EQ::c(6));
  EQ cw1 = cb1 / (kappa * kappa) + (1.0 + cb2) / sigma;
  EQ prod = cb1 * St * nu.v;
  EQ dest = cw1 * fw * (nu.v / eta.v) * (nu.v / eta.v);
  EQ trans = (d((1.0 / re + nu) * D(nu, 0), 0) + cb2 * d(nu, 0) * d(nu, 0)) / sigma;
  c.set("source_u/S1", Qu);
  c.set("source_v/S1", prod - dest + trans);
  c.set("exact_u/S1", u.v);
  c.set("exact_v/S1", nu.v);
}

// ------------------------------------------------------------------ FANS-SA common operator (2-D Cartesian)
struct Fans { J rho, u, v, p, nu; int it; };
struct FansSrc { EQ rho, mu_, mv, e, nu; };
struct FansOpt { bool freeze_fv1 = false; bool drop_rho_cv_dTdt = false; bool wall = false; bool limit_r = false; };

// returns false when the sample is too close to a branch of the S~ switch
bool fans_sources(const Ctx& c, const Fans& f, const EQ& mu, const EQ& d_wall, FansSrc& s, const FansOpt& o, bool& branch) {
  const EQ &Gamma = c.p("Gamma"), &R = c.p("R"), &Pr = c.p("Pr"), &Prt = c.p("Pr_t");
  const EQ &cb1 = c.p("c_b1"), &cb2 = c.p("c_b2"), &cv1 = c.p("c_v1"), &sigma = c.p("sigma");
  EQ cv = R / (Gamma - 1.0), cp = Gamma * cv;
  J T = f.p / (f.rho * R);
  J chi = f.rho * f.nu / mu;
  J fv1 = fv1_of(chi, cv1);
  if (o.freeze_fv1) fv1 = J(fv1.v);
  J mut = f.rho * f.nu * fv1;
  J mue = mu + mut; mue.ord = 1;
  J ux = D(f.u, 0), uy = D(f.u, 1), vx = D(f.v, 0), vy = D(f.v, 1);
  J div = ux + vy;
  J txx = mue * (2.0 * ux - (EQ::c(2) / EQ::c(3)) * div), tyy = mue * (2.0 * vy - (EQ::c(2) / EQ::c(3)) * div), txy = mue * (uy + vx);
  J ke = 0.5 * (f.u * f.u + f.v * f.v);
  J E = cv * T + ke, H = E + f.p / f.rho;
  s.rho = d(f.rho * f.u, 0) + d(f.rho * f.v, 1);
  s.mu_ = d(f.rho * f.u * f.u, 0) + d(f.rho * f.u * f.v, 1) + d(f.p, 0) - d(txx, 0) - d(txy, 1);
  s.mv = d(f.rho * f.u * f.v, 0) + d(f.rho * f.v * f.v, 1) + d(f.p, 1) - d(txy, 0) - d(tyy, 1);
  J kq = cp * (mu / Pr + mut / Prt); kq.ord = 1;
  s.e = d(f.rho * f.u * H, 0) + d(f.rho * f.v * H, 1) - d(kq * D(T, 0), 0) - d(kq * D(T, 1), 1) - d(txx * f.u + txy * f.v, 0) - d(txy * f.u + tyy * f.v, 1);
  // SA working variable
  EQ Omega = abs(uy.v - vx.v);
  EQ St = Omega;
  EQ dest;
  if (o.wall) {
    const EQ &kappa = c.p("kappa"), &cv2 = c.p("c_v2"), &cv3 = c.p("c_v3"), &cw2 = c.p("c_w2"), &cw3 = c.p("c_w3");
    EQ fv2 = 1.0 - chi.v / (1.0 + chi.v * fv1.v);
    EQ k2d2 = kappa * kappa * d_wall * d_wall;
    EQ Sbar = f.nu.v * fv2 / k2d2;
    EQ lim = -(cv2 * Omega);
    if (near(Sbar, lim, 1e-6)) { branch = true; return false; }
    St = (Sbar.v >= lim.v) ? Omega + Sbar : Omega + Omega * (cv2 * cv2 * Omega + cv3 * Sbar) / ((cv3 - 2.0 * cv2) * Omega - Sbar);
    EQ r = f.nu.v / (St * k2d2);
    EQ g = r + cw2 * (powi(r, 6) - r);
    EQ cw36 = powi(cw3, 6);
    EQ fw = g * pow((1.0 + cw36) / (powi(g, 6) + cw36), EQ::c(1) / EQ::c(6));
    EQ cw1 = cb1 / (kappa * kappa) + (1.0 + cb2) / sigma;
    dest = cw1 * fw * f.rho.v * (f.nu.v / d_wall) * (f.nu.v / d_wall);
  } else if (absd(Omega.v) < 1e-9) { branch = true; return false; }   // |.| not differentiable there (only its value is used, but keep away)
  J dif = mu + f.rho * f.nu; dif.ord = 1;
  EQ gn2 = d(f.nu, 0) * d(f.nu, 0) + d(f.nu, 1) * d(f.nu, 1);
  s.nu = d(f.rho * f.u * f.nu, 0) + d(f.rho * f.v * f.nu, 1) - cb1 * St * f.rho.v * f.nu.v + dest
         - (d(dif * D(f.nu, 0), 0) + d(dif * D(f.nu, 1), 1) + cb2 * f.rho.v * gn2) / sigma;
  if (f.it >= 0) {
    s.rho += d(f.rho, f.it);
    s.mu_ += d(f.rho * f.u, f.it);
    s.mv += d(f.rho * f.v, f.it);
    s.nu += d(f.rho * f.nu, f.it);
    if (o.drop_rho_cv_dTdt) s.e += d(f.rho * E, f.it) - f.rho.v * cv * d(T, f.it);
    else s.e += d(f.rho * E, f.it);
  }
  return true;
}

// ------------------------------------------------------------------ fans_sa_transient_free_shear
void draw_free(vh::Rng& r, Draw& d, const std::vector<std::string>& names) {
  std::map<std::string, long double> sum;
  for (auto& n : names) {
    if (n == "L") d.set(n, len(r));
    else if (n == "Gamma") d.set(n, r.uni(1.1L, 1.9L));
    else if (n == "R") d.set(n, r.uni(0.3L, 2.0L));
    else if (n == "Pr" || n == "Pr_t") d.set(n, r.uni(0.5L, 1.2L));
    else if (n == "mu") d.set(n, r.uni(0.05L, 1.0L));
    else if (n == "c_b1") d.set(n, r.uni(0.05L, 0.3L));
    else if (n == "c_b2") d.set(n, r.uni(0.3L, 1.0L));
    else if (n == "c_v1") d.set(n, r.uni(0.5L, 8.0L));
    else if (n == "sigma") d.set(n, r.uni(0.4L, 1.0L));
    else if (n == "kappa" || n == "c_w1" || n == "c_w2" || n == "c_w3") d.set(n, r.uni(0.2L, 3.0L));   // registered, unused without a wall
    else if (n.rfind("a_", 0) == 0) d.set(n, wav(r));
    else if (n.size() > 2 && n.substr(n.size() - 2) == "_0") continue;
    else { long double a = amp(r); d.set(n, a); sum[n.substr(0, n.rfind('_'))] += fabsl(a); }
  }
  for (auto& n : names)
    if (n.size() > 2 && n.substr(n.size() - 2) == "_0") {
      std::string f = n.substr(0, n.size() - 2);
      if (f == "rho" || f == "p" || f == "nu_sa") d.set(n, sum[f] + r.uni(0.3L, 2.0L));
      else d.set(n, amp(r));
    }
}

Fans free_fields(const Ctx& c, bool at_t0) {
  // time enters as jet variable 2; for the two-argument forms the fields are taken at t = 0
  Ctx c0 = c;
  if (at_t0) c0.x[2] = EQ::c(0);
  Fans f; f.it = 2;
  EQ L = c0.p("L");
  auto tr = [&](const std::string& a, int var, bool sine) { J arg = (c0.p(a) * pi()) * c0.var(var) / L; return sine ? sin(arg) : cos(arg); };
  f.nu = c0.p("nu_sa_0") + c0.p("nu_sa_x") * tr("a_nusax", 0, false) + c0.p("nu_sa_y") * tr("a_nusay", 1, false) + c0.p("nu_sa_t") * tr("a_nusat", 2, false);
  f.rho = roy_field(c0, "rho", "sc", 's', 2, 2);
  f.u = roy_field(c0, "u", "sc", 'c', 2, 2);
  f.v = roy_field(c0, "v", "cs", 's', 2, 2);
  f.p = roy_field(c0, "p", "cs", 'c', 2, 2);
  c.used.insert(c0.used.begin(), c0.used.end());
  return f;
}

void eval_free(Ctx& c) {
  for (int pass = 0; pass < 2; pass++) {
    bool t0 = pass == 1;
    std::string S = t0 ? "/S2" : "/S3";
    Fans f = free_fields(c, t0);
    if (!(f.rho.v.v > 0) || !(f.nu.v.v > 0) || !(f.p.v.v > 0)) { c.near_branch = true; return; }
    FansSrc s, k; bool br = false;
    FansOpt full;
    if (!fans_sources(c, f, c.p("mu"), EQ(), s, full, br)) { c.near_branch = true; return; }
    c.set("source_rho" + S, s.rho); c.set("source_rho_u" + S, s.mu_); c.set("source_rho_v" + S, s.mv);
    c.set("source_rho_e" + S, s.e); c.set("source_nu" + S, s.nu);
    // recorded deviations (DESIGN sec. 6, finding 13): f_v1 not differentiated in grad(mu_t)
    FansOpt dev; dev.freeze_fv1 = true;
    fans_sources(c, f, c.p("mu"), EQ(), k, dev, br);
    c.alt("source_rho_u" + S, "known:fans_sa_transient_free_shear:x-momentum:f_v1-not-differentiated", k.mu_);
    c.alt("source_rho_v" + S, "known:fans_sa_transient_free_shear:y-momentum:f_v1-not-differentiated", k.mv);
    c.alt("source_rho_e" + S, "known:fans_sa_transient_free_shear:energy:f_v1-not-differentiated", k.e);
    c.set("exact_nu" + S, f.nu.v);
    if (t0) { c.set("exact_u/S2", f.u.v); c.set("exact_v/S2", f.v.v); c.set("exact_p/S2", f.p.v); c.set("exact_rho/S2", f.rho.v); }
  }
}

// ------------------------------------------------------------------ fans_sa_steady_wall_bounded
void draw_wall(vh::Rng& r, Draw& d, const std::vector<std::string>& names) {
  for (auto& n : names) {
    if (n == "C") d.set(n, r.uni(3.0L, 7.0L));
    else if (n == "C_cf") d.set(n, r.uni(0.01L, 0.05L));
    else if (n == "Gamma") d.set(n, r.uni(1.2L, 1.6L));
    else if (n == "M_inf") d.set(n, r.uni(0.3L, 1.5L));
    else if (n == "Pr") d.set(n, r.uni(0.5L, 1.0L));
    else if (n == "Pr_t") d.set(n, r.uni(0.7L, 1.1L));
    else if (n == "R") d.set(n, r.uni(100.0L, 400.0L));
    else if (n == "T_inf") d.set(n, r.uni(150.0L, 400.0L));
    else if (n == "alpha") d.set(n, r.uni(1.0L, 8.0L));
    else if (n == "b") d.set(n, r.uni(0.2L, 0.5L));
    else if (n == "c_b1") d.set(n, r.uni(0.08L, 0.2L));
    else if (n == "c_b2") d.set(n, r.uni(0.4L, 0.8L));
    else if (n == "c_v1") d.set(n, r.uni(5.0L, 9.0L));
    else if (n == "c_v2") d.set(n, r.uni(0.5L, 0.9L));
    else if (n == "c_v3") d.set(n, r.uni(0.95L, 1.3L));
    else if (n == "c_w2") d.set(n, r.uni(0.2L, 0.4L));
    else if (n == "c_w3") d.set(n, r.uni(1.5L, 2.5L));
    else if (n == "eta1") d.set(n, r.uni(8.0L, 14.0L));
    else if (n == "eta_v") d.set(n, r.uni(20.0L, 40.0L));
    else if (n == "kappa") d.set(n, r.uni(0.35L, 0.45L));
    else if (n == "mu") d.set(n, r.uni(0.05L, 0.2L));
    else if (n == "p_0") d.set(n, r.uni(500.0L, 2000.0L));
    else if (n == "r_T") d.set(n, r.uni(0.8L, 0.95L));
    else if (n == "sigma") d.set(n, r.uni(0.5L, 0.8L));
    else d.set(n, amp(r));
  }
}
void point_wall(vh::Rng& r, long double* x, int) { x[0] = r.uni(0.5L, 3.0L); x[1] = r.uni(0.005L, 0.6L); }

void eval_wall(Ctx& c) {
  J x = c.var(0), y = c.var(1);
  const EQ &C = c.p("C"), &C_cf = c.p("C_cf"), &Gamma = c.p("Gamma"), &M = c.p("M_inf"), &R = c.p("R"), &T_inf = c.p("T_inf"), &alpha = c.p("alpha"),
           &b = c.p("b"), &eta1 = c.p("eta1"), &eta_v = c.p("eta_v"), &kappa = c.p("kappa"), &mu = c.p("mu"), &p0 = c.p("p_0"), &r_T = c.p("r_T");
  EQ C1 = C - log(kappa) / kappa;
  EQ u_inf = M * sqrt(Gamma * R * T_inf);
  EQ rho_inf = p0 / (R * T_inf);
  EQ T_aw = T_inf * (1.0 + r_T * (Gamma - 1.0) * M * M / 2.0);
  EQ rho_w = p0 / (R * T_aw);
  EQ A = sqrt(1.0 - T_inf / T_aw);
  EQ asA = asin(A);
  EQ F_c = (T_aw / T_inf - 1.0) / (asA * asA);
  EQ nu_w = mu / rho_w;
  J Re_x = (rho_inf * u_inf / mu) * x;
  J c_f = (C_cf / F_c) * pow(Re_x / F_c, -(EQ::c(1) / EQ::c(7)));
  J u_tau = u_inf * sqrt(c_f / 2.0);
  J yp = y * u_tau / nu_w;
  J ueqp = log(1.0 + kappa * yp) / kappa + C1 * (1.0 - exp(-(yp / eta1)) - (yp / eta1) * exp(-(yp * b)));
  J u_eq = u_tau * ueqp;
  Fans f; f.it = -1;
  f.u = (u_inf / A) * sin((A / u_inf) * u_eq);
  f.v = (eta_v / 14.0) * u_tau * y / x;
  J T = T_inf * (1.0 + (r_T * (Gamma - 1.0) * M * M / 2.0) * (1.0 - f.u * f.u / (u_inf * u_inf)));
  f.rho = p0 / (R * T);
  f.p = J(p0);
  f.nu = kappa * u_tau * y - alpha * y * y;
  if (!(f.nu.v.v > 0)) { c.near_branch = true; return; }   // admissible set: nu_sa > 0
  FansSrc s; bool br = false;
  FansOpt o; o.wall = true;
  if (!fans_sources(c, f, mu, y.v, s, o, br)) { c.near_branch = true; return; }
  c.set("source_rho/S2", s.rho); c.set("source_rho_u/S2", s.mu_); c.set("source_rho_v/S2", s.mv); c.set("source_rho_e/S2", s.e); c.set("source_nu/S2", s.nu);
  c.set("exact_u/S2", f.u.v); c.set("exact_v/S2", f.v.v); c.set("exact_t/S2", T.v); c.set("exact_rho/S2", f.rho.v); c.set("exact_p/S2", p0); c.set("exact_nu/S2", f.nu.v);
}
}  // namespace

void reg_sa() {
  { Sol s; s.name = "rans_sa"; s.prop = "C05"; s.nargs = 1; s.draw = draw_rans; s.point = point_rans; s.eval = eval_rans; s.delta_kind = [](const Sol&, const std::string& n) { return (n == "cv2" || n == "cv3") ? 0 : 1; }; s.special_ok = [](const std::string&) { return 0; }; s.zero_coord_from = -1; add(s); }
  { Sol s; s.name = "fans_sa_transient_free_shear"; s.prop = "C05"; s.nargs = 3; s.draw = draw_free; s.point = box_point; s.eval = eval_free; s.stretch = 1; s.nodal = roy_nodal; s.special_ok = [](const std::string& n) { return (n == "u_0" || n == "v_0") ? 2 : default_special_ok(n); }; add(s); }
  { Sol s; s.name = "fans_sa_steady_wall_bounded"; s.prop = "C05"; s.nargs = 2; s.draw = draw_wall; s.point = point_wall; s.eval = eval_wall; s.special_ok = [](const std::string&) { return 0; }; s.zero_coord_from = -1; add(s); }
}
}  // namespace orc
