// C01: heat conduction. T = cos(A_x x + A_t t) cos(B_y y + B_t t) cos(C_z z + C_t t) cos(D_t t)
// (factors absent in lower dimensions / steady cases); Q = rho cp(T) dT/dt - div(k(T) grad T),
// k(T) = k_0 + k_1 T + k_2 T^2, cp(T) likewise (constant-property solutions: k_0, cp_0 only).
#include "oracle.hpp"
namespace orc {
namespace {
struct Shape { int dim; bool unsteady, var; };
Shape shape_of(const std::string& n) { Shape s; s.dim = n[7] - '0'; s.unsteady = n.find("unsteady") != std::string::npos; s.var = n.find("_var") != std::string::npos; return s; }

void draw(vh::Rng& r, Draw& d, const std::vector<std::string>& names) {
  for (auto& n : names) {
    if (n == "A_x" || n == "B_y" || n == "C_z") d.set(n, wav(r));
    else if (n == "A_t" || n == "B_t" || n == "C_t" || n == "D_t") d.set(n, r.pm(0.2L, 3.0L));
    else d.set(n, amp(r));   // k_i, cp_i, rho: every finite assignment is admissible
  }
}

void eval(Ctx& c) {
  Shape s = shape_of(c.sol);
  int it = s.dim;   // index of t among the API arguments
  J Tt = J(EQ::c(1));
  const char* A[3] = {"A_x", "B_y", "C_z"};
  const char* At[3] = {"A_t", "B_t", "C_t"};
  for (int i = 0; i < s.dim; i++) {
    J arg = c.p(A[i]) * c.var(i);
    if (s.unsteady) arg = arg + c.p(At[i]) * c.var(it);
    Tt = Tt * cos(arg);
  }
  if (s.unsteady) Tt = Tt * cos(c.p("D_t") * c.var(it));
  J k = J(c.p("k_0"));
  if (s.var) k = k + c.p("k_1") * Tt + c.p("k_2") * Tt * Tt;
  EQ Q;
  for (int i = 0; i < s.dim; i++) Q = Q - d(k * D(Tt, i), i);
  if (s.unsteady) {
    J cp = J(c.p("cp_0"));
    if (s.var) cp = cp + c.p("cp_1") * Tt + c.p("cp_2") * Tt * Tt;
    Q = Q + (c.p("rho") * cp.v) * d(Tt, it);
  }
  int n = s.dim + (s.unsteady ? 1 : 0);
  std::string suf = "/S" + std::to_string(n);
  c.set("source_t" + suf, Q);
  c.set("exact_t" + suf, Tt.v);   // compared only where the solution provides it
}
// a point on a nodal (phase = odd multiple of pi/2) or extremal (multiple of pi) set of one cosine factor of T
void nodal(vh::Rng& r, const std::map<std::string, long double>& P, long double* xs, int n) {
  auto get = [&](const char* k) { auto it = P.find(k); return it == P.end() ? 0.0L : it->second; };
  const char* A[3] = {"A_x", "B_y", "C_z"};
  const char* At[3] = {"A_t", "B_t", "C_t"};
  bool unsteady = P.count("D_t") > 0;
  int dim = unsteady ? n - 1 : n;
  long double target = (long double)(r.below(9) - 4) * (M_PIl / 2);
  int f = r.below(dim + (unsteady ? 1 : 0));
  if (f < dim) {
    long double a = get(A[f]), at = unsteady ? get(At[f]) * xs[dim] : 0;
    if (a != 0) xs[f] = (target - at) / a;
  } else {
    long double dt = get("D_t");
    if (dt != 0) xs[dim] = target / dt;
  }
}
}  // namespace

void reg_heat() {
  for (int dim = 1; dim <= 3; dim++)
    for (const char* st : {"steady", "unsteady"})
      for (const char* cv : {"const", "var"}) {
        Sol s; s.name = "heateq_" + std::to_string(dim) + "d_" + st + "_" + cv; s.prop = "C01";
        s.nargs = dim + (std::string(st) == "unsteady" ? 1 : 0);
        s.draw = draw; s.point = box_point; s.eval = eval; s.stretch = 1; s.special_ok = [](const std::string&) { return 2; };
        s.nodal = nodal;
        add(s);
      }
}
}  // namespace orc
