#include "oracle.hpp"
namespace orc {
void reg_misc() {} void reg_sa() {} void reg_chem() {}
vh::FP<double> chem_cb_d(int) { return nullptr; } vh::FP<long double> chem_cb_l(int) { return nullptr; } int chem_ncb() { return 1; } void chem_select(Ctx&, int) {}
}
