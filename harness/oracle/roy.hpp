// Roy-type manufactured fields (euler.page / cns.page / burgers.page):
//   phi = phi_0 + phi_x fs(a_phix pi x/L) + phi_y fs(a_phiy pi y/L) + phi_z fs(a_phiz pi z/L) [+ phi_t fs(a_phit pi t/L)]
// with the sine/cosine pattern per variable as documented:
//   rho: sin cos sin | sin(t)     u: sin cos cos | cos(t)     v: cos sin sin | sin(t)
//   w:   sin sin cos | cos(t)     p: cos sin cos | cos(t)
#pragma once
#include "oracle.hpp"
#include <cstring>
namespace orc {
inline J roy_field(const Ctx& c, const std::string& f, const char* pat /* e.g. "scs" */, char tpat, int dim, int it) {
  static const char* ax[3] = {"x", "y", "z"};
  J r = J(c.p(f + "_0"));
  EQ L = c.p("L");
  for (int i = 0; i < dim; i++) {
    J arg = (c.p("a_" + f + ax[i]) * pi()) * c.var(i) / L;
    r = r + c.p(f + "_" + ax[i]) * (pat[i] == 's' ? sin(arg) : cos(arg));
  }
  if (it >= 0) {
    J arg = (c.p("a_" + f + "t") * pi()) * c.var(it) / L;
    r = r + c.p(f + "_t") * (tpat == 's' ? sin(arg) : cos(arg));
  }
  return r;
}
// admissible draw for Roy-type parameter sets: offsets dominate the amplitudes for rho and p
inline void roy_draw(vh::Rng& r, Draw& d, const std::vector<std::string>& names) {
  std::map<std::string, long double> sum;
  for (auto& n : names) {
    if (n == "L") d.set(n, len(r));
    else if (n == "Gamma") d.set(n, r.coin() ? r.uni(1.1L, 1.9L) : r.uni(0.3L, 0.9L));
    else if (n == "R") d.set(n, r.uni(0.3L, 2.0L));
    else if (n.rfind("a_", 0) == 0) d.set(n, wav(r));
    else if (n == "k" || n == "mu" || n == "nu") d.set(n, amp(r));
    else if (n.size() > 2 && n.substr(n.size() - 2) == "_0") continue;   // offsets afterwards
    else { long double a = amp(r); d.set(n, a); size_t u = n.rfind('_'); sum[n.substr(0, u)] += fabsl(a); }
  }
  for (auto& n : names)
    if (n.size() > 2 && n.substr(n.size() - 2) == "_0") {
      std::string f = n.substr(0, n.size() - 2);
      if (f == "rho" || f == "p") d.set(n, sum[f] + r.uni(0.3L, 2.0L));   // rho > 0, p > 0
      else d.set(n, amp(r));
    }
}
// a coordinate on a node / extremum of one sine-cosine mode: a_{f i} pi x_i / L = m pi / 2, i.e. x_i = m L / (2 a_{f i})
inline void roy_nodal(vh::Rng& r, const std::map<std::string, long double>& P, long double* xs, int n) {
  std::vector<std::pair<std::string, int>> modes;   // (wave-number name, coordinate index)
  static const char* ax = "xyz";
  for (auto& kv : P) {
    const std::string& k = kv.first;
    if (k.rfind("a_", 0) != 0 || k.size() < 4 || kv.second == 0) continue;
    char c = k.back();
    const char* q = strchr(ax, c);
    int ci = q ? (int)(q - ax) : (c == 't' ? n - 1 : (c == 'r' ? 0 : -1));
    if (c == 'z' && P.count("a_ur")) ci = 1;          // axisymmetric solutions: (r, z[, t])
    if (ci >= 0 && ci < n) modes.push_back({k, ci});
  }
  auto L = P.find("L");
  if (modes.empty() || L == P.end()) return;
  auto& m = modes[(size_t)r.below((int)modes.size())];
  long double mm = (long double)(r.below(13) - 6);
  long double x = mm * L->second / (2 * P.at(m.first));
  if (m.second == 0 && P.count("a_ur") && !(x > 0)) return;   // r > 0
  xs[m.second] = x;
}
}  // namespace orc
