// C02: Euler family (steady 1/2/3-D, transient 1/2/3-D). Fields: Roy forms of euler.page; operators: ops_flow.hpp.
#include "ops_flow.hpp"
#include "roy.hpp"
namespace orc {
namespace {
struct Shape { int dim; bool tr; };
Shape shape_of(const std::string& n) { Shape s; s.tr = n.find("transient") != std::string::npos; s.dim = n[n.size() - 2] - '0'; return s; }

void eval(Ctx& c) {
  Shape sh = shape_of(c.sol);
  Flow f; f.dim = sh.dim; f.it = sh.tr ? sh.dim : -1;
  f.rho = roy_field(c, "rho", "scs", 's', sh.dim, f.it);
  f.u[0] = roy_field(c, "u", "scc", 'c', sh.dim, f.it);
  if (sh.dim >= 2) f.u[1] = roy_field(c, "v", "css", 's', sh.dim, f.it);
  if (sh.dim >= 3) f.u[2] = roy_field(c, "w", "ssc", 'c', sh.dim, f.it);
  f.p = roy_field(c, "p", "csc", 'c', sh.dim, f.it);
  Src s = cartesian(f, c.p("Gamma"), false, EQ(), EQ(), EQ());
  int n = sh.dim + (sh.tr ? 1 : 0);
  std::string S = "/S" + std::to_string(n);
  const char* vel[3] = {"u", "v", "w"};
  c.set("source_rho" + S, s.rho);
  // API naming split: steady classes and euler_transient_1d expose source_rho_u/_v/_w/_e, the auto-generated transient 2-D/3-D ones source_u/_v/_w/_e
  bool autogen = sh.tr && sh.dim >= 2;
  for (int a = 0; a < sh.dim; a++) c.set(std::string(autogen ? "source_" : "source_rho_") + vel[a] + S, s.m[a]);
  c.set(std::string(autogen ? "source_e" : "source_rho_e") + S, s.e);
  c.set("exact_rho" + S, f.rho.v);
  c.set("exact_p" + S, f.p.v);
  for (int a = 0; a < sh.dim; a++) c.set(std::string("exact_") + vel[a] + S, f.u[a].v);
  // gradients (C07): component i = d/dx_i of the exact field
  if (!sh.tr) {
    std::string G = sh.dim == 1 ? "/S1" : "/I" + std::to_string(sh.dim);
    auto grads = [&](const std::string& nm, const J& fld) {
      for (int i = 0; i < sh.dim; i++) c.set("grad_" + nm + G + (sh.dim == 1 ? "" : "#" + std::to_string(i + 1)), d(fld, i));
    };
    grads("rho", f.rho); grads("p", f.p);
    for (int a = 0; a < sh.dim; a++) grads(vel[a], f.u[a]);
  }
}
}  // namespace

void reg_euler() {
  for (const char* n : {"euler_1d", "euler_2d", "euler_3d", "euler_transient_1d", "euler_transient_2d", "euler_transient_3d"}) {
    Sol s; s.name = n; s.prop = "C02"; Shape sh = shape_of(n); s.nargs = sh.dim + (sh.tr ? 1 : 0);
    s.draw = roy_draw; s.point = box_point; s.eval = eval; s.stretch = 1; s.nodal = roy_nodal;
    s.special_ok = [](const std::string& n) { return (n == "k" || n == "mu") ? 2 : default_special_ok(n); };
    add(s);
  }
}
}  // namespace orc
