#include "oracle.hpp"
namespace orc {
static std::vector<Sol>& reg() { static std::vector<Sol> v; return v; }
void add(const Sol& s) { reg().push_back(s); }
const std::vector<Sol>& registry() {
  static bool done = false;
  if (!done) { done = true; reg_heat(); reg_euler(); reg_ns(); reg_axi(); reg_powerlaw(); reg_misc(); reg_sa(); reg_chem(); }
  return reg();
}
const Sol* find(const std::string& name) { for (auto& s : registry()) if (s.name == name) return &s; return nullptr; }
void box_point(vh::Rng& r, long double* x, int n) { for (int i = 0; i < n; i++) x[i] = r.uni(-2.0L, 2.0L); }
}  // namespace orc
