#include "oracle.hpp"
#include <cstring>
namespace orc {
static std::vector<Sol>& reg() { static std::vector<Sol> v; return v; }
void add(const Sol& s) { reg().push_back(s); }
const std::vector<Sol>& registry() {
  static bool done = false;
  if (!done) { done = true; reg_heat(); reg_euler(); reg_ns(); reg_axi(); reg_powerlaw(); reg_misc(); reg_sa(); reg_chem(); }
  return reg();
}
const Sol* find(const std::string& name) { for (auto& s : registry()) if (s.name == name) return &s; return nullptr; }
int default_special_ok(const std::string& n) {
  if (n.size() < 3 || n == "Pr_t") return 0;     // Pr_t is a Prandtl number (divisor), not a temporal amplitude
  if (n.rfind("a_", 0) == 0) return 2;                                   // wave numbers
  std::string suf = n.substr(n.size() - 2);
  bool amp_ = suf == "_x" || suf == "_y" || suf == "_z" || suf == "_t";
  if (!amp_) return 0;
  if (n.rfind("u_", 0) == 0 || n.rfind("v_", 0) == 0 || n.rfind("w_", 0) == 0) return 2;   // velocity amplitudes: sign and size free
  return 1;                                                               // rho_*, p_*, T_*, nu_sa_*: zero keeps the field positive
}
void specialise(vh::Rng& r, const Sol& s, Draw& d, const std::vector<std::string>& names, std::string& what) {
  auto ok = s.special_ok ? s.special_ok : default_special_ok;
  std::vector<std::string> el;
  for (auto& n : names) if (ok(n) > 0) el.push_back(n);
  if (el.empty()) return;
  // one time in three: a whole family (same prefix: k_*, cp_*, rho_*, ... or same suffix: *_z, *_t, ...) or a random part of it is zeroed -
  // the situations the nested-physics reductions name (k_1 = k_2 = 0, all temporal amplitudes 0, ...)
  if (r.below(3) == 0) {
    const std::string& n0 = el[(size_t)r.below((int)el.size())];
    size_t us = n0.rfind('_');
    if (us != std::string::npos && n0.rfind("a_", 0) != 0) {
      bool by_prefix = r.coin();
      std::string key = by_prefix ? n0.substr(0, us + 1) : n0.substr(us);
      bool part = r.coin();
      for (auto& n : el) {
        if (n.rfind("a_", 0) == 0) continue;
        bool member = by_prefix ? n.rfind(key, 0) == 0 : (n.size() >= key.size() && n.compare(n.size() - key.size(), key.size(), key) == 0);
        if (member && (!part || r.coin())) { d.set(n, 0.0L); what += n + "=0 "; }
      }
      if (!what.empty()) return;
    }
  }
  int k = 1 + r.below(3);
  for (int i = 0; i < k; i++) {
    const std::string& n = el[(size_t)r.below((int)el.size())];
    int kind = ok(n) == 1 ? 0 : r.below(4);
    switch (kind) {
      case 0: d.set(n, 0.0L); what += n + "=0 "; break;
      case 1: d.set(n, r.sgn()); what += n + "=+-1 "; break;
      case 2: d.set(n, (long double)(2 + r.below(2))); what += n + "=int "; break;
      default: { const std::string& m = el[(size_t)r.below((int)el.size())]; if (ok(m) == 2 && m != n) { d.set(n, d.get(m)); what += n + "=" + m + " "; } break; }
    }
  }
}
int default_delta_kind(const Sol& s, const std::string& n) {
  auto ok = s.special_ok ? s.special_ok : default_special_ok;
  int o = ok(n);
  if (o == 2) return 1;
  if (o == 1) return 2;
  if (n.size() > 2 && n.compare(n.size() - 2, 2, "_0") == 0) return 3;   // offsets dominate the amplitudes: may only grow
  return 1;                                                               // constants drawn independently of everything else
}
static bool stretch_const(const std::string& n) {
  static const char* W[] = {"R", "k", "mu", "nu", "rho", "theta_v_N2", "M_N", "R_N", "R_N2", "Cf1_N", "Cf1_N2", "Ea_N", "Ea_N2", "h0_N", "h0_N2",
                            "k_0", "k_1", "k_2", "cp_0", "cp_1", "cp_2", "mu_r", "kappa_r", "lambda_r", "T_r"};
  for (auto w : W) if (n == w) return true;
  return false;
}
void stretch_draw(vh::Rng& r, const Sol& s, Draw& d, const std::vector<std::string>& names, std::string& what) {
  if (!s.stretch) return;
  auto p10 = [&](long double lo, long double hi) { return powl(10.0L, r.uni(lo, hi)); };
  int acts = 1 + r.below(2);
  for (int a = 0; a < acts; a++) {
    int kind = r.below(s.stretch == 1 ? 4 : 2);
    std::vector<std::string> cand;
    if (kind == 0) {          // a length
      for (auto& n : names) if (n == "L" || n == "Lx" || n == "Ly" || n == "Lz") cand.push_back(n);
      if (cand.empty()) continue;
      const std::string& n = cand[(size_t)r.below((int)cand.size())];
      long double f = p10(-2, 2); d.set(n, d.get(n) * f); what += n + "*=" + std::to_string((double)f) + " ";
    } else if (kind == 1) {   // a positive / sign-free constant
      for (auto& n : names) if (stretch_const(n)) cand.push_back(n);
      if (cand.empty()) continue;
      const std::string& n = cand[(size_t)r.below((int)cand.size())];
      long double f = p10(-3, 3); d.set(n, d.get(n) * f); what += n + "*=" + std::to_string((double)f) + " ";
    } else if (kind == 2) {   // one wave number
      for (auto& n : names) if (n.rfind("a_", 0) == 0) cand.push_back(n);
      if (cand.empty()) continue;
      const std::string& n = cand[(size_t)r.below((int)cand.size())];
      long double f = p10(-2, 1.5L); d.set(n, d.get(n) * f); what += n + "*=" + std::to_string((double)f) + " ";
    } else {                  // a whole field (offset and amplitudes together keep its sign): rho_*, p_*, T_*, u_*, rho_N_*, ...
      for (auto& n : names) { size_t us = n.rfind('_'); if (us != std::string::npos && us > 0 && n.rfind("a_", 0) != 0 && !stretch_const(n) && n.size() - us == 2 && strchr("01xyzrt", n[us + 1])) cand.push_back(n.substr(0, us + 1)); }
      if (cand.empty()) continue;
      std::string pre = cand[(size_t)r.below((int)cand.size())];
      long double f = p10(-3, 4);
      for (auto& n : names) if (n.rfind(pre, 0) == 0 && n.size() == pre.size() + 1 && strchr("01xyzrt", n[pre.size()]) && !stretch_const(n)) d.set(n, d.get(n) * f);
      what += pre + "* *=" + std::to_string((double)f) + " ";
    }
  }
}
void box_point(vh::Rng& r, long double* x, int n) { for (int i = 0; i < n; i++) x[i] = r.uni(-2.0L, 2.0L); }
}  // namespace orc
