#include "oracle.hpp"
#include <cstring>
namespace orc {
static std::vector<Sol>& reg() { static std::vector<Sol> v; return v; }
void add(const Sol& s) { reg().push_back(s); }
const std::vector<Sol>& registry() {
  static bool done = false;
  if (!done) { done = true; reg_heat(); reg_euler(); reg_ns(); reg_axi(); reg_powerlaw(); reg_misc(); reg_sa(); reg_chem(); }
  return reg();
}
const Sol* find(const std::string& name) { for (auto& s : registry()) if (s.name == name) return &s; return nullptr; }
int default_special_ok(const std::string& n) {
  if (n.size() < 3 || n == "Pr_t") return 0;     // Pr_t is a Prandtl number (divisor), not a temporal amplitude
  if (n.rfind("a_", 0) == 0) return 2;                                   // wave numbers
  std::string suf = n.substr(n.size() - 2);
  bool amp_ = suf == "_x" || suf == "_y" || suf == "_z" || suf == "_t";
  if (!amp_) return 0;
  if (n.rfind("u_", 0) == 0 || n.rfind("v_", 0) == 0 || n.rfind("w_", 0) == 0) return 2;   // velocity amplitudes: sign and size free
  return 1;                                                               // rho_*, p_*, T_*, nu_sa_*: zero keeps the field positive
}
void specialise(vh::Rng& r, const Sol& s, Draw& d, const std::vector<std::string>& names, std::string& what) {
  auto ok = s.special_ok ? s.special_ok : default_special_ok;
  std::vector<std::string> el;
  for (auto& n : names) if (ok(n) > 0) el.push_back(n);
  if (el.empty()) return;
  // one time in three: a whole family (same prefix: k_*, cp_*, rho_*, ... or same suffix: *_z, *_t, ...) or a random part of it is zeroed -
  // the situations the nested-physics reductions name (k_1 = k_2 = 0, all temporal amplitudes 0, ...)
  if (r.below(3) == 0) {
    const std::string& n0 = el[(size_t)r.below((int)el.size())];
    size_t us = n0.rfind('_');
    if (us != std::string::npos && n0.rfind("a_", 0) != 0) {
      bool by_prefix = r.coin();
      std::string key = by_prefix ? n0.substr(0, us + 1) : n0.substr(us);
      bool part = r.coin();
      for (auto& n : el) {
        if (n.rfind("a_", 0) == 0) continue;
        bool member = by_prefix ? n.rfind(key, 0) == 0 : (n.size() >= key.size() && n.compare(n.size() - key.size(), key.size(), key) == 0);
        if (member && (!part || r.coin())) { d.set(n, 0.0L); what += n + "=0 "; }
      }
      if (!what.empty()) return;
    }
  }
  // the steady inviscid corner: every temporal amplitude AND temporal wave number zero, viscosity / conductivity zero
  if (r.below(8) == 0) {
    for (auto& n : el) {
      bool temporal = n.size() > 2 && n.back() == 't' && (n[n.size() - 2] == '_' || n.rfind("a_", 0) == 0);
      if (temporal || n == "nu" || n == "mu" || n == "k") { d.set(n, 0.0L); what += n + "=0 "; }
    }
    if (!what.empty()) return;
  }
  // one wave number per direction (all a_*x equal, all a_*y equal, ...), or every sign-free parameter equal to one value
  if (r.below(10) == 0) {
    bool all = r.below(3) == 0;
    std::map<char, long double> per;
    long double one = r.pm(0.3L, 3.0L);
    for (auto& n : el) {
      if (ok(n) != 2) continue;
      if (n.rfind("a_", 0) == 0 && n.size() > 3) { char c = n.back(); if (!per.count(c)) per[c] = all ? one : (r.coin() ? (long double)(1 + r.below(4)) : r.pm(0.3L, 3.0L)); d.set(n, per[c]); what += n + "=k" + c + " "; }
      else if (all) { d.set(n, one); what += n + "=same "; }
    }
    if (!what.empty()) return;
  }
  // ratio of specific heats next to 1 (admissible: Gamma != 1), where 1/(Gamma-1) is large
  if (s.stretch != 0 && r.below(8) == 0) for (auto& n : names) if (n == "Gamma" || n == "gamma") { d.set(n, 1.0L + r.sgn() * powl(2.0L, -(long double)(8 + r.below(40)))); what += n + "~1 "; }
  int k = 1 + r.below(3);
  for (int i = 0; i < k; i++) {
    // half of the picks among the few constants that are not field amplitudes / wave numbers (exponents, transport coefficients, ...)
    std::vector<std::string> cst;
    for (auto& n : el) if (ok(n) == 2 && n.rfind("a_", 0) != 0 && !(n.size() > 2 && n[n.size() - 2] == '_' && strchr("0xyzrt", n.back())) && !(n.size() > 3 && n[1] == '_')) cst.push_back(n);
    const std::string& n = (!cst.empty() && r.coin()) ? cst[(size_t)r.below((int)cst.size())] : el[(size_t)r.below((int)el.size())];
    int kind = ok(n) == 1 ? 0 : r.below(6);
    switch (kind) {
      case 0: d.set(n, 0.0L); what += n + "=0 "; break;
      case 1: d.set(n, r.sgn()); what += n + "=+-1 "; break;
      case 2: d.set(n, r.sgn() * (long double)(2 + r.below(15))); what += n + "=int "; break;                 // +-2..16
      case 3: d.set(n, r.sgn() * ((long double)r.below(5) + 0.5L)); what += n + "=half-int "; break;        // +-0.5..4.5
      default: { const std::string& m = el[(size_t)r.below((int)el.size())]; if (ok(m) == 2 && m != n) { d.set(n, d.get(m)); what += n + "=" + m + " "; } break; }
    }
  }
}
int default_delta_kind(const Sol& s, const std::string& n) {
  auto ok = s.special_ok ? s.special_ok : default_special_ok;
  int o = ok(n);
  if (o == 2) return 1;
  if (o == 1) return 2;
  if (n.size() > 2 && n.compare(n.size() - 2, 2, "_0") == 0) return 3;   // offsets dominate the amplitudes: may only grow
  return 1;                                                               // constants drawn independently of everything else
}
static bool stretch_const(const std::string& n) {
  static const char* W[] = {"R", "k", "mu", "nu", "rho", "theta_v_N2", "M_N", "R_N", "R_N2", "Cf1_N", "Cf1_N2", "Ea_N", "Ea_N2", "h0_N", "h0_N2",
                            "k_0", "k_1", "k_2", "cp_0", "cp_1", "cp_2", "mu_r", "kappa_r", "lambda_r", "T_r"};
  for (auto w : W) if (n == w) return true;
  return false;
}
void stretch_draw(vh::Rng& r, const Sol& s, Draw& d, const std::vector<std::string>& names, std::string& what) {
  if (!s.stretch) return;
  auto p10 = [&](long double lo, long double hi) { return powl(10.0L, r.uni(lo, hi)); };
  int acts = 1 + r.below(2);
  for (int a = 0; a < acts; a++) {
    int kind = r.below(s.stretch == 1 ? 4 : 2);
    std::vector<std::string> cand;
    if (kind == 0) {          // a length
      for (auto& n : names) if (n == "L" || n == "Lx" || n == "Ly" || n == "Lz") cand.push_back(n);
      if (cand.empty()) continue;
      const std::string& n = cand[(size_t)r.below((int)cand.size())];
      long double f = p10(-2, 2); d.set(n, d.get(n) * f); what += n + "*=" + std::to_string((double)f) + " ";
    } else if (kind == 1) {   // a positive / sign-free constant
      for (auto& n : names) if (stretch_const(n)) cand.push_back(n);
      if (cand.empty()) continue;
      const std::string& n = cand[(size_t)r.below((int)cand.size())];
      long double f = r.below(6) == 0 ? p10(-18, 18) : p10(-3, 3); d.set(n, d.get(n) * f); what += n + "*=" + std::to_string((double)f) + " ";
    } else if (kind == 2) {   // one wave number
      for (auto& n : names) if (n.rfind("a_", 0) == 0) cand.push_back(n);
      if (cand.empty()) continue;
      const std::string& n = cand[(size_t)r.below((int)cand.size())];
      long double f = p10(-2, 1.5L); d.set(n, d.get(n) * f); what += n + "*=" + std::to_string((double)f) + " ";
    } else {                  // a whole field (offset and amplitudes together keep its sign): rho_*, p_*, T_*, u_*, rho_N_*, ...
      for (auto& n : names) { size_t us = n.rfind('_'); if (us != std::string::npos && us > 0 && n.rfind("a_", 0) != 0 && n.size() - us == 2 && strchr("012xyzrt", n[us + 1])) cand.push_back(n.substr(0, us + 1)); }
      if (cand.empty()) continue;
      std::string pre = cand[(size_t)r.below((int)cand.size())];
      // whole families (k_0,k_1,k_2 / rho_0,rho_x,.. / T_0,T_x): mostly within a few decades, one time in six over many (quantities in tiny or huge units)
      long double f = r.below(6) == 0 ? p10(-17, 17) : p10(-3, 4);
      for (auto& n : names) if (n.rfind(pre, 0) == 0 && n.size() == pre.size() + 1 && strchr("012xyzrt", n[pre.size()])) d.set(n, d.get(n) * f);
      what += pre + "* *=" + std::to_string((double)f) + " ";
    }
  }
}
void make_point(vh::Rng& r, const Sol& s, const std::map<std::string, long double>& P, const long double* prev, bool have_prev, bool same_as_prev, long double* xs, PointInfo& info) {
  const int n = s.nargs;
  for (int i = 0; i < 4; i++) xs[i] = 0;
  s.point(r, xs, n);
  long double fresh[4]; for (int i = 0; i < 4; i++) fresh[i] = xs[i];
  auto par = [&](const char* a, const char* b) { auto it = P.find(a); if (it != P.end()) return it->second; it = P.find(b); return it != P.end() ? it->second : 1.0L; };
  // a coordinate exactly 0 (axes, t = 0) where the domain allows it
  if (s.zero_coord_from >= 0 && r.below(6) == 0) { int ci = s.zero_coord_from + r.below(std::max(1, n - s.zero_coord_from)); if (ci < n) { xs[ci] = 0; info.kind += "axis "; } }
  // a coordinate very close to (but not on) an axis: 10^-U(1,7), positive where the domain requires it
  if (s.zero_coord_from >= 0 && r.below(6) == 0) {
    int ci = r.below(n);
    long double tiny = powl(10.0L, -r.uni(1.0L, 7.0L));
    xs[ci] = (ci < s.zero_coord_from || r.coin()) ? tiny : -tiny;
    info.kind += "near-axis ";
  }
  if (s.point == box_point) {
    int sk = r.below(24);
    if (sk == 0) { for (int i = 1; i < n; i++) xs[i] = xs[0]; info.kind += "all-equal "; }
    else if (sk == 1 || sk == 2) {
      static const long double F[] = {1.0L, 0.5L, 2.0L, -1.0L, 0.25L, 1.5L, -0.5L};
      int ci = r.below(n);
      static const char* LN[4] = {"Lx", "Ly", "Lz", "L"};
      xs[ci] = par(LN[std::min(ci, 3)], "L") * F[r.below(7)]; info.kind += "tied-to-L ";
    }
    else if (sk == 3) { xs[r.below(n)] = (long double)(r.below(9) - 4); info.kind += "integer "; }
    else if (sk == 4) { xs[r.below(n)] = (long double)(r.below(17) - 8) / 2; info.kind += "half-integer "; }
    else if (sk == 5 || sk == 6) { for (int i = 0; i < n; i++) xs[i] *= 5; info.far_pt = true; info.kind += "5x-box "; }
    else if (sk == 7) { if (r.coin()) { for (int i = 0; i < n; i++) xs[i] *= 50; info.far_pt = true; info.kind += "50x-box "; } }
  }
  if (s.nodal && r.below(10) == 0) { s.nodal(r, P, xs, n); info.kind += "nodal "; }
  if (have_prev) {
    if (same_as_prev) { for (int i = 0; i < 4; i++) xs[i] = prev[i]; info.kind = "same-point "; }
    else {
      int v = r.below(14);
      if (v <= 3) {
        long double keep[4]; for (int i = 0; i < 4; i++) keep[i] = xs[i];
        for (int i = 0; i < 4; i++) xs[i] = prev[i];
        int ci = r.below(n);
        if (v == 0) { xs[ci] = fresh[ci]; info.kind = "prev-one-coordinate-redrawn "; }
        else if (v == 1) { xs[n - 1] = fresh[n - 1]; info.kind = "prev-last-coordinate-redrawn "; }
        else if (v == 2) { long double d = powl(10.0L, -r.uni(5.0L, 12.0L)); xs[ci] = prev[ci] == 0 ? d : prev[ci] * (1 + d); info.kind = "prev-nudged "; }
        else if (s.point == box_point && n > 1) { int cj = (ci + 1 + r.below(n - 1)) % n; xs[ci] = prev[cj]; info.kind = "prev-coordinate-copied "; }
        else { for (int i = 0; i < 4; i++) xs[i] = keep[i]; }
      }
    }
  }
  info.irregular = info.far_pt;
  for (int i = 0; i < n; i++) if (fabsl(xs[i]) < 0.05L) info.irregular = true;
  if (info.kind.find("nodal") != std::string::npos || info.kind.find("integer") != std::string::npos || info.kind.find("tied") != std::string::npos) info.irregular = true;
}
void box_point(vh::Rng& r, long double* x, int n) { for (int i = 0; i < n; i++) x[i] = r.uni(-2.0L, 2.0L); }
}  // namespace orc
