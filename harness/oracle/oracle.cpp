#include "oracle.hpp"
namespace orc {
static std::vector<Sol>& reg() { static std::vector<Sol> v; return v; }
void add(const Sol& s) { reg().push_back(s); }
const std::vector<Sol>& registry() {
  static bool done = false;
  if (!done) { done = true; reg_heat(); reg_euler(); reg_ns(); reg_axi(); reg_powerlaw(); reg_misc(); reg_sa(); reg_chem(); }
  return reg();
}
const Sol* find(const std::string& name) { for (auto& s : registry()) if (s.name == name) return &s; return nullptr; }
int default_special_ok(const std::string& n) {
  if (n.size() < 3 || n == "Pr_t") return 0;     // Pr_t is a Prandtl number (divisor), not a temporal amplitude
  if (n.rfind("a_", 0) == 0) return 2;                                   // wave numbers
  std::string suf = n.substr(n.size() - 2);
  bool amp_ = suf == "_x" || suf == "_y" || suf == "_z" || suf == "_t";
  if (!amp_) return 0;
  if (n.rfind("u_", 0) == 0 || n.rfind("v_", 0) == 0 || n.rfind("w_", 0) == 0) return 2;   // velocity amplitudes: sign and size free
  return 1;                                                               // rho_*, p_*, T_*, nu_sa_*: zero keeps the field positive
}
void specialise(vh::Rng& r, const Sol& s, Draw& d, const std::vector<std::string>& names, std::string& what) {
  auto ok = s.special_ok ? s.special_ok : default_special_ok;
  std::vector<std::string> el;
  for (auto& n : names) if (ok(n) > 0) el.push_back(n);
  if (el.empty()) return;
  int k = 1 + r.below(3);
  for (int i = 0; i < k; i++) {
    const std::string& n = el[(size_t)r.below((int)el.size())];
    int kind = ok(n) == 1 ? 0 : r.below(4);
    switch (kind) {
      case 0: d.set(n, 0.0L); what += n + "=0 "; break;
      case 1: d.set(n, r.sgn()); what += n + "=+-1 "; break;
      case 2: d.set(n, (long double)(2 + r.below(2))); what += n + "=int "; break;
      default: { const std::string& m = el[(size_t)r.below((int)el.size())]; if (ok(m) == 2 && m != n) { d.set(n, d.get(m)); what += n + "=" + m + " "; } break; }
    }
  }
}
void box_point(vh::Rng& r, long double* x, int n) { for (int i = 0; i < n; i++) x[i] = r.uni(-2.0L, 2.0L); }
}  // namespace orc
