// C06: euler_chem_1d - reacting Euler flow of N and N2 (N2 + M <-> 2N + M, M in {N, N2}).
// Reference written from concentrations: [N] = rho_N/M_N, [N2] = rho_N2/(2 M_N),
//   k_f,M = Cf1_M T^etaf1_M exp(-Ea_M/(R T)),  R_net = (k_f,N [N] + k_f,N2 [N2]) ([N2] - [N]^2/K_eq(T)),
//   omega_N = 2 M_N R_net = -omega_N2;  Q_rho_s = d(rho_s u)/dx - omega_s.
// Thermally perfect mixture: p = (rho_N R_N + rho_N2 R_N/2) T (the library takes the N2 gas constant as R_N/2 in the
// pressure and the translational-rotational energy and uses the parameter R_N2 in the vibrational energy only -
// recorded assumption, DESIGN sec. 2/C06), e_N = 3/2 R_N T + h0_N, e_N2 = 5/2 (R_N/2) T + R_N2 theta_v/(exp(theta_v/T)-1) + h0_N2.
#include "oracle.hpp"
namespace orc {

// ---- the callback family K_eq(T): each exists in double, long double and as an EQ reference
static const int NCB = 8;   // 6 pure ones + 2 RE-ENTRANT ones: they call the library again (same handle, another point) before returning
template <class S> static S keq(int k, S T) {
  using std::exp; using std::pow;
  switch (k) {
    case 0: return S(2.5);
    case 1: return S(0.0625);
    case 2: return S(3) * pow(T, S(0.5)) * exp(-S(1.25) / T);      // Arrhenius-like
    case 3: return S(0.5) * pow(T, S(-0.75)) * exp(-S(0.5) / T);
    case 4: case 7: return S(1) + S(0.25) * T + S(0.125) * T * T;          // positive polynomial
    case 6: return S(3) * pow(T, S(0.5)) * exp(-S(1.25) / T);
    default: return S(0.75) + S(0.5) * T * T;
  }
}
static EQ keq_ref(int k, const EQ& T) {
  switch (k) {
    case 0: return EQ::c(2.5);
    case 1: return EQ::c(0.0625);
    case 2: return 3.0 * pow(T, EQ::c(0.5)) * exp(-(EQ::c(1.25) / T));
    case 3: return 0.5 * pow(T, EQ::c(-0.75)) * exp(-(EQ::c(0.5) / T));
    case 4: case 7: return 1.0 + 0.25 * T + 0.125 * T * T;
    case 6: return 3.0 * pow(T, EQ::c(0.5)) * exp(-(EQ::c(1.25) / T));
    default: return 0.75 + 0.5 * T * T;
  }
}
// recording wrappers: how often was the callback invoked, and with which temperature
struct Rec { int calls = 0; long double lastT = 0; };
static Rec g_rec;
Rec chem_rec() { return g_rec; }
void chem_rec_reset() { g_rec = Rec(); }
template <class S> static S plain_keq(S T) { return S(1.5) + T; }
template <class S, int K> static S cb(S T) {
  g_rec.calls++; g_rec.lastT = (long double)T;
  // "for every such function": a user's K_eq may itself consult the library (the temperature at a reference station, another source term) -
  // the outer evaluation must not be disturbed by the nested calls
  if (K == 6) { volatile S t0 = MASA::masa_eval_exact_t<S>(S(0.3125)); (void)t0; volatile S r0 = MASA::masa_eval_exact_rho_N<S>(S(-1.25)); (void)r0; }
  if (K == 7) { volatile S q0 = MASA::masa_eval_source_rho_u<S>(S(0.8125)); (void)q0; volatile S q1 = MASA::masa_eval_source_rho_N2<S>(S(-0.4375), plain_keq<S>); (void)q1; }
  return keq<S>(K, T);
}
vh::FP<double> chem_cb_d(int k) { static vh::FP<double> t[NCB] = {cb<double, 0>, cb<double, 1>, cb<double, 2>, cb<double, 3>, cb<double, 4>, cb<double, 5>, cb<double, 6>, cb<double, 7>}; return t[k]; }
vh::FP<long double> chem_cb_l(int k) { static vh::FP<long double> t[NCB] = {cb<long double, 0>, cb<long double, 1>, cb<long double, 2>, cb<long double, 3>, cb<long double, 4>, cb<long double, 5>, cb<long double, 6>, cb<long double, 7>}; return t[k]; }
int chem_ncb() { return NCB; }
static int g_sel = 0;
void chem_select(Ctx&, int k) { g_sel = k; }
int chem_calls() { return g_rec.calls; }
long double chem_lastT() { return g_rec.lastT; }

namespace {
void draw(vh::Rng& r, Draw& d, const std::vector<std::string>& names) {
  for (auto& n : names) {
    if (n == "L") d.set(n, len(r));
    else if (n == "R") d.set(n, r.uni(0.5L, 5.0L));
    else if (n == "R_N") d.set(n, r.uni(0.3L, 1.0L));
    else if (n == "R_N2") d.set(n, r.uni(0.2L, 0.8L));
    else if (n == "M_N") d.set(n, r.uni(1.0L, 6.0L));
    else if (n == "theta_v_N2") d.set(n, r.uni(0.5L, 3.0L));
    else if (n == "Cf1_N" || n == "Cf1_N2") d.set(n, r.uni(0.2L, 3.0L));
    else if (n == "etaf1_N" || n == "etaf1_N2") d.set(n, r.pm(0.1L, 1.5L));
    else if (n == "Ea_N" || n == "Ea_N2") d.set(n, r.uni(0.1L, 3.0L));
    else if (n.rfind("a_", 0) == 0) d.set(n, wav(r));
    else if (n == "T_0" || n == "rho_N_0" || n == "rho_N2_0") continue;
    else d.set(n, amp(r));   // h0_*, u_0, u_x, T_x, rho_*_x
  }
  d.set("T_0", fabsl(d.get("T_x")) + r.uni(0.5L, 3.0L));
  d.set("rho_N_0", fabsl(d.get("rho_N_x")) + r.uni(0.2L, 2.0L));
  d.set("rho_N2_0", fabsl(d.get("rho_N2_x")) + r.uni(0.2L, 2.0L));
}

void eval(Ctx& c) {
  J x = c.var(0);
  EQ L = c.p("L");
  auto arg = [&](const char* a) { return (c.p(a) * pi()) * x / L; };
  J rN = c.p("rho_N_0") + c.p("rho_N_x") * sin(arg("a_rho_N_x"));
  J rN2 = c.p("rho_N2_0") + c.p("rho_N2_x") * cos(arg("a_rho_N2_x"));
  J u = c.p("u_0") + c.p("u_x") * sin(arg("a_ux"));
  J T = c.p("T_0") + c.p("T_x") * cos(arg("a_Tx"));
  J rho = rN + rN2;
  const EQ &R = c.p("R"), &R_N = c.p("R_N"), &R_N2 = c.p("R_N2"), &M_N = c.p("M_N"), &th = c.p("theta_v_N2");
  // kinetics (values only)
  EQ Tv = T.v;
  EQ kfN = c.p("Cf1_N") * pow(Tv, c.p("etaf1_N")) * exp(-(c.p("Ea_N") / (R * Tv)));
  EQ kfN2 = c.p("Cf1_N2") * pow(Tv, c.p("etaf1_N2")) * exp(-(c.p("Ea_N2") / (R * Tv)));
  EQ cN = rN.v / M_N, cN2 = rN2.v / (2.0 * M_N);
  EQ Keq = keq_ref(g_sel, Tv);
  // the two directions are kept as separate terms (they are of the size of the governing terms even when they cancel)
  EQ fwd = (kfN * cN + kfN2 * cN2) * cN2;
  EQ bwd = (kfN * cN + kfN2 * cN2) * cN * cN / Keq;
  EQ omegaN = 2.0 * M_N * (fwd - bwd);
  c.set("source_rho_N/F1", d(rN * u, 0) - omegaN);
  c.set("source_rho_N2/F1", d(rN2 * u, 0) + omegaN);
  c.set("@sum(source_rho_N/F1,source_rho_N2/F1)", d(rho * u, 0));   // invariant: reaction terms cancel in the mass sum
  // momentum and energy
  J p = (rN * R_N + rN2 * (R_N / 2.0)) * T;
  c.set("source_rho_u/S1", d(rho * u * u, 0) + d(p, 0));
  J evib = (R_N2 * th) / (exp(th / T) - 1.0);
  J eN = (1.5 * R_N) * T + c.p("h0_N");
  J eN2 = (2.5 * (R_N / 2.0)) * T + evib + c.p("h0_N2");
  J rhoE = rN * eN + rN2 * eN2 + 0.5 * rho * u * u;
  c.set("source_rho_e/S1", d((rhoE + p) * u, 0));
  c.set("exact_t/S1", T.v); c.set("exact_u/S1", u.v); c.set("exact_rho/S1", rho.v); c.set("exact_rho_N/S1", rN.v); c.set("exact_rho_N2/S1", rN2.v);
}
}  // namespace
void reg_chem() { Sol s; s.name = "euler_chem_1d"; s.prop = "C06"; s.nargs = 1; s.draw = draw; s.point = box_point; s.eval = eval; s.stretch = 1;
  // Arrhenius exponents may take any value (T > 0): integers and half-integers are the textbook ones
  s.special_ok = [](const std::string& n) { return (n == "etaf1_N" || n == "etaf1_N2") ? 2 : default_special_ok(n); };
  add(s); }
}  // namespace orc
