// C03 (Cartesian part): navierstokes_2d/3d_compressible. Fields: Roy forms; operator: cns.page via ops_flow.hpp.
#include "ops_flow.hpp"
#include "roy.hpp"
namespace orc {
namespace {
void eval(Ctx& c) {
  int dim = c.sol[13] - '0';
  Flow f; f.dim = dim; f.it = -1;
  f.rho = roy_field(c, "rho", "scs", 's', dim, -1);
  f.u[0] = roy_field(c, "u", "scc", 'c', dim, -1);
  f.u[1] = roy_field(c, "v", "css", 's', dim, -1);
  if (dim >= 3) f.u[2] = roy_field(c, "w", "ssc", 'c', dim, -1);
  f.p = roy_field(c, "p", "csc", 'c', dim, -1);
  Src s = cartesian(f, c.p("Gamma"), true, c.p("mu"), c.p("k"), c.p("R"));
  std::string S = "/S" + std::to_string(dim), G = "/I" + std::to_string(dim);
  const char* vel[3] = {"u", "v", "w"};
  c.set("source_rho" + S, s.rho);
  for (int a = 0; a < dim; a++) c.set(std::string("source_rho_") + vel[a] + S, s.m[a]);
  c.set("source_rho_e" + S, s.e);
  c.set("exact_rho" + S, f.rho.v);
  c.set("exact_p" + S, f.p.v);
  for (int a = 0; a < dim; a++) c.set(std::string("exact_") + vel[a] + S, f.u[a].v);
  auto grads = [&](const std::string& nm, const J& fld) { for (int i = 0; i < dim; i++) c.set("grad_" + nm + G + "#" + std::to_string(i + 1), d(fld, i)); };
  grads("rho", f.rho); grads("p", f.p);
  for (int a = 0; a < dim; a++) grads(vel[a], f.u[a]);
}
}  // namespace
void reg_ns() {
  for (const char* n : {"navierstokes_2d_compressible", "navierstokes_3d_compressible"}) {
    Sol s; s.name = n; s.prop = "C03"; s.nargs = n[13] - '0'; s.draw = roy_draw; s.point = box_point; s.eval = eval; s.stretch = 1; s.nodal = roy_nodal;
    s.special_ok = [](const std::string& n) { return (n == "k" || n == "mu") ? 2 : default_special_ok(n); };
    add(s);
  }
}
}  // namespace orc
