// C03/C07: navierstokes_4d_compressible_powerlaw (Ulerich et al. 2012).
// Primitive phi in {rho,u,v,w,T}:
//   a_0 cos(f_0 t+g_0) + a_x cos(2pi b_x x/Lx + c_x) cos(f_x t+g_x) + a_xy cos(2pi b_xy x/Lx + c_xy) cos(2pi d_xy y/Ly + e_xy) cos(f_xy t+g_xy)
//   + a_xz cos(2pi b_xz x/Lx + c_xz) cos(2pi d_xz z/Lz + e_xz) cos(f_xz t+g_xz) + a_y cos(2pi b_y y/Ly + c_y) cos(f_y t+g_y)
//   + a_yz cos(2pi b_yz y/Ly + c_yz) cos(2pi d_yz z/Lz + e_yz) cos(f_yz t+g_yz) + a_z cos(2pi b_z z/Lz + c_z) cos(f_z t+g_z)
// Model: p = rho R T, e = R T/(gamma-1) + |u|^2/2, mu = mu_r (T/T_r)^beta, lambda = lambda_r mu/mu_r, kappa = kappa_r mu/mu_r,
// tau = mu (grad u + grad u^T) + lambda (div u) I, q = -kappa grad T.
#include "oracle.hpp"
namespace orc {
namespace {
void draw(vh::Rng& r, Draw& d, const std::vector<std::string>& names) {
  for (auto& n : names) {
    if (n == "Lx" || n == "Ly" || n == "Lz") d.set(n, r.uni(1.0L, 4.0L) * r.sgn());
    else if (n == "gamma") d.set(n, r.uni(1.1L, 1.9L));
    else if (n == "R") d.set(n, r.uni(0.3L, 2.0L));
    else if (n == "beta") d.set(n, r.uni(0.1L, 1.5L));
    else if (n == "T_r") d.set(n, r.uni(0.5L, 2.0L));
    else if (n == "mu_r") d.set(n, amp(r));
    else if (n == "kappa_r" || n == "lambda_r") d.set(n, amp(r));
    else {
      // <pre>_<field><suffix>
      char pre = n[0];
      std::string rest = n.substr(2);
      bool posfield = rest.rfind("rho", 0) == 0 || rest[0] == 'T';
      std::string suf = rest.substr(rest.rfind("rho", 0) == 0 ? 3 : 1);
      if (pre == 'a') {
        if (suf == "0") d.set(n, posfield ? r.uni(1.0L, 2.0L) : amp(r));
        else d.set(n, posfield ? r.pm(0.02L, 0.11L) : amp(r));
      } else if (pre == 'b' || pre == 'd') d.set(n, r.pm(0.2L, 2.0L));
      else if (pre == 'c' || pre == 'e') d.set(n, r.pm(0.05L, 3.1L));
      else if (pre == 'f') d.set(n, (posfield && suf == "0") ? r.pm(0.05L, 0.2L) : r.pm(0.2L, 2.0L));
      else if (pre == 'g') d.set(n, (posfield && suf == "0") ? r.pm(0.05L, 0.3L) : r.pm(0.05L, 3.1L));
      else d.set(n, amp(r));
    }
  }
}

J prim(const Ctx& c, const std::string& f) {
  EQ twopi = EQ::c(2) * pi();
  J x = c.var(0), y = c.var(1), z = c.var(2), t = c.var(3);
  EQ kx = twopi / c.p("Lx"), ky = twopi / c.p("Ly"), kz = twopi / c.p("Lz");
  auto P = [&](const char* pre, const char* suf) -> const EQ& { return c.p(std::string(pre) + f + suf); };
  auto tm = [&](const char* s) { return cos(P("f_", s) * t + P("g_", s)); };
  J r = P("a_", "0") * tm("0");
  r = r + P("a_", "x") * cos((P("b_", "x") * kx) * x + P("c_", "x")) * tm("x");
  r = r + P("a_", "xy") * cos((P("b_", "xy") * kx) * x + P("c_", "xy")) * cos((P("d_", "xy") * ky) * y + P("e_", "xy")) * tm("xy");
  r = r + P("a_", "xz") * cos((P("b_", "xz") * kx) * x + P("c_", "xz")) * cos((P("d_", "xz") * kz) * z + P("e_", "xz")) * tm("xz");
  r = r + P("a_", "y") * cos((P("b_", "y") * ky) * y + P("c_", "y")) * tm("y");
  r = r + P("a_", "yz") * cos((P("b_", "yz") * ky) * y + P("c_", "yz")) * cos((P("d_", "yz") * kz) * z + P("e_", "yz")) * tm("yz");
  r = r + P("a_", "z") * cos((P("b_", "z") * kz) * z + P("c_", "z")) * tm("z");
  return r;
}

void eval(Ctx& c) {
  J rho = prim(c, "rho"), Tm = prim(c, "T");
  J u[3] = {prim(c, "u"), prim(c, "v"), prim(c, "w")};
  const EQ &gamma = c.p("gamma"), &R = c.p("R"), &beta = c.p("beta"), &mu_r = c.p("mu_r"), &T_r = c.p("T_r");
  const EQ &kappa_r = c.p("kappa_r"), &lambda_r = c.p("lambda_r");
  J p = rho * R * Tm;
  auto fields_and_gradients = [&] {
    c.set("exact_rho/S4", rho.v); c.set("exact_t/S4", Tm.v); c.set("exact_p/S4", p.v);
    c.set("exact_u/S4", u[0].v); c.set("exact_v/S4", u[1].v); c.set("exact_w/S4", u[2].v);
    const char* nm[6] = {"rho", "t", "p", "u", "v", "w"};
    const J* fl[6] = {&rho, &Tm, &p, &u[0], &u[1], &u[2]};
    for (int k = 0; k < 6; k++)
      for (int i = 0; i < 3; i++) c.set(std::string("grad_") + nm[k] + "/I4#" + std::to_string(i + 1), d(*fl[k], i));
  };
  if (!(rho.v.v > 0) || !(Tm.v.v > 0)) {
    // outside the admissible set of the sources (rho > 0, T > 0); the fields and their gradients are polynomial in the primitives and
    // are defined everywhere (C07 quantifies over all parameters): a gradients-only run still gets its references
    if (c.fields_only) { fields_and_gradients(); return; }
    c.near_branch = true; return;
  }
  J e = (R / (gamma - 1.0)) * Tm + 0.5 * (u[0] * u[0] + u[1] * u[1] + u[2] * u[2]);
  J Tj1 = Tm; Tj1.ord = 1;   // viscosity needs first derivatives only
  J mu = mu_r * pow(Tj1 / T_r, beta);
  J lambda = (lambda_r / mu_r) * mu;
  J kappa = (kappa_r / mu_r) * mu;
  const int t = 3;
  EQ Qrho = d(rho, t), Qm[3], Qe = d(rho * e, t);
  for (int i = 0; i < 3; i++) Qrho += d(rho * u[i], i);
  J div = D(u[0], 0) + D(u[1], 1) + D(u[2], 2);
  J tau[3][3];
  for (int a = 0; a < 3; a++)
    for (int b = 0; b < 3; b++) {
      tau[a][b] = mu * (D(u[a], b) + D(u[b], a));
      if (a == b) tau[a][b] = tau[a][b] + lambda * div;
    }
  for (int a = 0; a < 3; a++) {
    Qm[a] = d(rho * u[a], t) + d(p, a);
    for (int b = 0; b < 3; b++) Qm[a] += d(rho * u[a] * u[b], b) - d(tau[a][b], b);
  }
  for (int b = 0; b < 3; b++) {
    Qe += d(rho * u[b] * e, b) + d(p * u[b], b) - d(kappa * D(Tm, b), b);
    J work = tau[0][b] * u[0] + tau[1][b] * u[1] + tau[2][b] * u[2];
    Qe -= d(work, b);
  }
  c.set("source_rho/S4", Qrho);
  c.set("source_rho_u/S4", Qm[0]); c.set("source_rho_v/S4", Qm[1]); c.set("source_rho_w/S4", Qm[2]);
  c.set("source_rho_e/S4", Qe);
  fields_and_gradients();
}
}  // namespace
void reg_powerlaw() {
  Sol s; s.name = "navierstokes_4d_compressible_powerlaw"; s.prop = "C03"; s.nargs = 4; s.draw = draw; s.point = box_point; s.eval = eval; s.stretch = 2;
  s.special_ok = [](const std::string& n) {
    if (n == "kappa_r" || n == "lambda_r" || n == "beta") return 2;
    if (n.size() < 3 || n[1] != '_') return 0;
    bool pos = n.compare(2, 3, "rho") == 0 || n[2] == 'T';
    if (n[0] == 'a') return pos ? ((n == "a_rho0" || n == "a_T0") ? 0 : 1) : 2;
    if (std::string("bcdefg").find(n[0]) != std::string::npos) return (pos && (n == "f_rho0" || n == "g_rho0" || n == "f_T0" || n == "g_T0")) ? 1 : 2;
    return 0;
  };
  add(s);
}
}  // namespace orc
