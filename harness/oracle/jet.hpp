// Reference arithmetic for the PDE oracles.
//   EQ  : a quad-precision value with a running first-order rounding-error magnitude `e`
//         (the absolute error, in units of one unit roundoff, a working-precision evaluation of the same
//         expression must be expected to commit - Higham's running error analysis).
//   Jet<N>: truncated Taylor jet (value, gradient, Hessian) in N variables over EQ. D(j,i) is the jet of the
//         i-th partial derivative (one order lower). No hand differentiation happens anywhere in /verif.
#pragma once
#include <quadmath.h>
#include <cmath>
#include <cstdio>
#include <cstdlib>

namespace orc {

typedef __float128 Q;

struct EQ {
  Q v; double e;
  EQ() : v(0), e(0) {}
  EQ(Q v_, double e_) : v(v_), e(e_) {}
  // exact small constants (2, 0.5, 2/3 is NOT exact: use EQ::c(2)/EQ::c(3))
  static EQ c(double x) { return EQ((Q)x, 0.0); }
  static EQ exact(Q x) { return EQ(x, 0.0); }
  static EQ rounded(Q x) { return EQ(x, (double)fabsq(x)); }
  bool is_zero() const { return v == 0 && e == 0; }
};
inline double absd(Q x) { return (double)fabsq(x); }

inline EQ operator+(const EQ& a, const EQ& b) { if (a.is_zero()) return b; if (b.is_zero()) return a; Q v = a.v + b.v; return EQ(v, a.e + b.e + absd(v)); }
inline EQ operator-(const EQ& a) { return EQ(-a.v, a.e); }
inline EQ operator-(const EQ& a, const EQ& b) { return a + (-b); }
inline EQ operator*(const EQ& a, const EQ& b) {
  if (a.is_zero() || b.is_zero()) return EQ();
  Q v = a.v * b.v;
  return EQ(v, absd(a.v) * b.e + absd(b.v) * a.e + absd(v));
}
inline EQ operator/(const EQ& a, const EQ& b) {
  if (a.is_zero()) return EQ();
  Q v = a.v / b.v;
  double ab = absd(b.v);
  return EQ(v, a.e / ab + absd(a.v) * b.e / (ab * ab) + absd(v));
}
inline EQ operator*(double k, const EQ& a) { return EQ::c(k) * a; }
inline EQ operator*(const EQ& a, double k) { return EQ::c(k) * a; }
inline EQ operator+(const EQ& a, double k) { return a + EQ::c(k); }
inline EQ operator-(const EQ& a, double k) { return a - EQ::c(k); }
inline EQ operator+(double k, const EQ& a) { return a + EQ::c(k); }
inline EQ operator-(double k, const EQ& a) { return EQ::c(k) - a; }
inline EQ operator/(const EQ& a, double k) { return a / EQ::c(k); }
inline EQ operator/(double k, const EQ& a) { return EQ::c(k) / a; }
inline EQ& operator+=(EQ& a, const EQ& b) { a = a + b; return a; }
inline EQ& operator-=(EQ& a, const EQ& b) { a = a - b; return a; }

// elementary functions: value f(u), error |f'(u)| e_u + |f(u)|
inline EQ fn1(const EQ& u, Q f, Q df) { return EQ(f, absd(df) * u.e + absd(f)); }
inline EQ sin(const EQ& u) { return fn1(u, sinq(u.v), cosq(u.v)); }
inline EQ cos(const EQ& u) { return fn1(u, cosq(u.v), -sinq(u.v)); }
inline EQ exp(const EQ& u) { Q f = expq(u.v); return fn1(u, f, f); }
inline EQ log(const EQ& u) { return fn1(u, logq(u.v), 1 / u.v); }
inline EQ sqrt(const EQ& u) { Q f = sqrtq(u.v); return fn1(u, f, 1 / (2 * f)); }
inline EQ asin(const EQ& u) { return fn1(u, asinq(u.v), 1 / sqrtq(1 - u.v * u.v)); }
inline EQ abs(const EQ& u) { return EQ(fabsq(u.v), u.e); }
inline EQ pow(const EQ& u, const EQ& p) {   // u > 0
  Q f = powq(u.v, p.v);
  return EQ(f, absd(f * p.v / u.v) * u.e + absd(f * logq(u.v)) * p.e + absd(f));
}
inline EQ powi(const EQ& u, int n) { EQ r = EQ::c(1); for (int i = 0; i < (n < 0 ? -n : n); i++) r = r * u; return n < 0 ? EQ::c(1) / r : r; }
inline const EQ& pi() { static EQ p = EQ::rounded(M_PIq); return p; }

// ------------------------------------------------------------------------------------------ jets
template <int N>
struct Jet {
  static constexpr int NH = N * (N + 1) / 2;
  int ord;        // 2: value+gradient+Hessian valid; 1: value+gradient; 0: value only
  EQ v, g[N], h[NH];
  Jet() : ord(2) {}
  explicit Jet(const EQ& c) : ord(2), v(c) {}                 // constant
  static Jet var(const EQ& x, int i) { Jet j; j.v = x; j.g[i] = EQ::c(1); return j; }
  static int hi(int i, int j) { if (i > j) { int t = i; i = j; j = t; } return i * N - i * (i - 1) / 2 + (j - i); }
  const EQ& H(int i, int j) const { need(2); return h[hi(i, j)]; }
  const EQ& G(int i) const { need(1); return g[i]; }
  void need(int o) const { if (ord < o) { fprintf(stderr, "oracle bug: jet of order %d used at order %d\n", ord, o); abort(); } }
};

// derivative jet: one order lower
template <int N> Jet<N> D(const Jet<N>& a, int i) {
  a.need(1);
  Jet<N> r; r.ord = a.ord - 1;
  r.v = a.g[i];
  if (r.ord >= 1) for (int k = 0; k < N; k++) r.g[k] = a.h[Jet<N>::hi(i, k)];
  return r;
}
template <int N> inline EQ d(const Jet<N>& a, int i) { return a.G(i); }

template <int N> Jet<N> operator+(const Jet<N>& a, const Jet<N>& b) {
  Jet<N> r; r.ord = a.ord < b.ord ? a.ord : b.ord;
  r.v = a.v + b.v;
  if (r.ord >= 1) for (int i = 0; i < N; i++) r.g[i] = a.g[i] + b.g[i];
  if (r.ord >= 2) for (int i = 0; i < Jet<N>::NH; i++) r.h[i] = a.h[i] + b.h[i];
  return r;
}
template <int N> Jet<N> operator-(const Jet<N>& a) {
  Jet<N> r; r.ord = a.ord; r.v = -a.v;
  for (int i = 0; i < N; i++) r.g[i] = -a.g[i];
  for (int i = 0; i < Jet<N>::NH; i++) r.h[i] = -a.h[i];
  return r;
}
template <int N> Jet<N> operator-(const Jet<N>& a, const Jet<N>& b) { return a + (-b); }
template <int N> Jet<N> operator*(const Jet<N>& a, const Jet<N>& b) {
  Jet<N> r; r.ord = a.ord < b.ord ? a.ord : b.ord;
  r.v = a.v * b.v;
  if (r.ord >= 1) for (int i = 0; i < N; i++) r.g[i] = a.g[i] * b.v + a.v * b.g[i];
  if (r.ord >= 2)
    for (int i = 0; i < N; i++)
      for (int j = i; j < N; j++) {
        int k = Jet<N>::hi(i, j);
        r.h[k] = a.h[k] * b.v + a.g[i] * b.g[j] + a.g[j] * b.g[i] + a.v * b.h[k];
      }
  return r;
}
// apply a scalar function given f, f', f'' at a.v
template <int N> Jet<N> chain(const Jet<N>& a, const EQ& f, const EQ& f1, const EQ& f2) {
  Jet<N> r; r.ord = a.ord; r.v = f;
  if (r.ord >= 1) for (int i = 0; i < N; i++) r.g[i] = f1 * a.g[i];
  if (r.ord >= 2)
    for (int i = 0; i < N; i++)
      for (int j = i; j < N; j++) { int k = Jet<N>::hi(i, j); r.h[k] = f1 * a.h[k] + f2 * (a.g[i] * a.g[j]); }
  return r;
}
template <int N> Jet<N> inv(const Jet<N>& a) { EQ f = EQ::c(1) / a.v; EQ f1 = -(f * f); EQ f2 = EQ::c(2) * f * f * f; return chain(a, f, f1, f2); }
template <int N> Jet<N> operator/(const Jet<N>& a, const Jet<N>& b) { return a * inv(b); }
template <int N> Jet<N> sin(const Jet<N>& a) { EQ s = sin(a.v), c = cos(a.v); return chain(a, s, c, -s); }
template <int N> Jet<N> cos(const Jet<N>& a) { EQ s = sin(a.v), c = cos(a.v); return chain(a, c, -s, -c); }
template <int N> Jet<N> exp(const Jet<N>& a) { EQ f = exp(a.v); return chain(a, f, f, f); }
template <int N> Jet<N> log(const Jet<N>& a) { EQ i = EQ::c(1) / a.v; return chain(a, log(a.v), i, -(i * i)); }
template <int N> Jet<N> sqrt(const Jet<N>& a) { EQ f = sqrt(a.v); EQ f1 = EQ::c(0.5) / f; EQ f2 = -(f1 / (EQ::c(2) * a.v)); return chain(a, f, f1, f2); }
template <int N> Jet<N> pow(const Jet<N>& a, const EQ& p) {   // a > 0, constant exponent
  EQ f = pow(a.v, p); EQ f1 = p * f / a.v; EQ f2 = (p - 1.0) * f1 / a.v; return chain(a, f, f1, f2);
}
template <int N> Jet<N> sq(const Jet<N>& a) { return a * a; }
template <int N> Jet<N> cube(const Jet<N>& a) { return a * a * a; }

// mixed Jet / EQ / double
template <int N> Jet<N> operator*(const EQ& k, const Jet<N>& a) {
  Jet<N> r; r.ord = a.ord; r.v = k * a.v;
  for (int i = 0; i < N; i++) r.g[i] = k * a.g[i];
  if (r.ord >= 2) for (int i = 0; i < Jet<N>::NH; i++) r.h[i] = k * a.h[i];
  return r;
}
template <int N> Jet<N> operator*(const Jet<N>& a, const EQ& k) { return k * a; }
template <int N> Jet<N> operator/(const Jet<N>& a, const EQ& k) { return (EQ::c(1) / k) * a; }
template <int N> Jet<N> operator/(const EQ& k, const Jet<N>& a) { return k * inv(a); }
template <int N> Jet<N> operator+(const Jet<N>& a, const EQ& k) { Jet<N> r = a; r.v = a.v + k; return r; }
template <int N> Jet<N> operator+(const EQ& k, const Jet<N>& a) { return a + k; }
template <int N> Jet<N> operator-(const Jet<N>& a, const EQ& k) { return a + (-k); }
template <int N> Jet<N> operator-(const EQ& k, const Jet<N>& a) { return (-a) + k; }
template <int N> Jet<N> operator*(double k, const Jet<N>& a) { return EQ::c(k) * a; }
template <int N> Jet<N> operator*(const Jet<N>& a, double k) { return EQ::c(k) * a; }
template <int N> Jet<N> operator/(const Jet<N>& a, double k) { return a / EQ::c(k); }
template <int N> Jet<N> operator/(double k, const Jet<N>& a) { return EQ::c(k) / a; }
template <int N> Jet<N> operator+(const Jet<N>& a, double k) { return a + EQ::c(k); }
template <int N> Jet<N> operator+(double k, const Jet<N>& a) { return a + EQ::c(k); }
template <int N> Jet<N> operator-(const Jet<N>& a, double k) { return a - EQ::c(k); }
template <int N> Jet<N> operator-(double k, const Jet<N>& a) { return EQ::c(k) - a; }

}  // namespace orc
