// C02/C03 (axisymmetric part): axisymmetric_euler, axi_euler_transient, axisymmetric_navierstokes_compressible,
// axi_cns_transient. No doxygen page exists; fields are the forms the property statement names
// (u vanishing on the axis through the factor cos(a_ur pi r/L) - 1), operators: cylindrical conservation laws.
#include "ops_flow.hpp"
#include "roy.hpp"
namespace orc {
namespace {
void point(vh::Rng& r, long double* x, int n) { x[0] = r.uni(0.1L, 3.0L); for (int i = 1; i < n; i++) x[i] = r.uni(-2.0L, 2.0L); }

void draw(vh::Rng& r, Draw& d, const std::vector<std::string>& names) {
  long double srho = 0, sp = 0;
  for (auto& n : names) {
    if (n == "L") d.set(n, len(r));
    else if (n == "Gamma") d.set(n, r.coin() ? r.uni(1.1L, 1.9L) : r.uni(0.3L, 0.9L));
    else if (n == "R") d.set(n, r.uni(0.3L, 2.0L));
    else if (n.rfind("a_", 0) == 0) d.set(n, wav(r));
    else if (n == "rho_0" || n == "p_0") continue;
    else {
      long double a = amp(r); d.set(n, a);
      if (n.rfind("rho_", 0) == 0) srho += fabsl(a);
      if (n.rfind("p_", 0) == 0) sp += fabsl(a);
    }
  }
  d.set("rho_0", srho + r.uni(0.3L, 2.0L));
  d.set("p_0", sp + r.uni(0.3L, 2.0L));
}

J trig(const Ctx& c, const std::string& a, int var, bool sine) { J arg = (c.p(a) * pi()) * c.var(var) / c.p("L"); return sine ? sin(arg) : cos(arg); }

void eval(Ctx& c) {
  bool tr = c.sol.find("transient") != std::string::npos;
  bool visc = c.sol.find("cns") != std::string::npos || c.sol.find("navierstokes") != std::string::npos;
  bool steady_cns = c.sol == "axisymmetric_navierstokes_compressible";
  Flow f; f.dim = 2; f.it = tr ? 2 : -1;
  J r = c.var(0);
  if (steady_cns) {
    // product forms with amplitudes *_1
    f.u[0] = c.p("u_1") * (trig(c, "a_ur", 0, false) - 1.0) * trig(c, "a_uz", 1, true);
    f.u[1] = c.p("w_0") + c.p("w_1") * trig(c, "a_wr", 0, false) * trig(c, "a_wz", 1, true);
    f.p = c.p("p_0") + c.p("p_1") * trig(c, "a_pr", 0, true) * trig(c, "a_pz", 1, false);
    f.rho = c.p("rho_0") + c.p("rho_1") * trig(c, "a_rhor", 0, false) * trig(c, "a_rhoz", 1, true);
  } else {
    J uz = c.p("u_z") * trig(c, "a_uz", 1, true);
    if (tr) uz = uz + c.p("u_t") * trig(c, "a_ut", 2, false);
    f.u[0] = c.p("u_r") * (trig(c, "a_ur", 0, false) - 1.0) * uz;
    f.u[1] = c.p("w_0") + c.p("w_r") * trig(c, "a_wr", 0, false) + c.p("w_z") * trig(c, "a_wz", 1, true);
    f.p = c.p("p_0") + c.p("p_r") * trig(c, "a_pr", 0, true) + c.p("p_z") * trig(c, "a_pz", 1, false);
    f.rho = c.p("rho_0") + c.p("rho_r") * trig(c, "a_rhor", 0, false) + c.p("rho_z") * trig(c, "a_rhoz", 1, true);
    if (tr) {
      f.u[1] = f.u[1] + c.p("w_t") * trig(c, "a_wt", 2, false);
      f.p = f.p + c.p("p_t") * trig(c, "a_pt", 2, false);
      f.rho = f.rho + c.p("rho_t") * trig(c, "a_rhot", 2, true);
    }
  }
  EQ mu, kc, R;
  if (visc) { mu = c.p("mu"); kc = c.p("k"); R = c.p("R"); }
  Src s = axisymmetric(f, r, c.p("Gamma"), visc, mu, kc, R);
  std::string S = tr ? "/S3" : "/S2";
  std::string pre = tr ? "source_" : "source_rho_";
  c.set("source_rho" + S, s.rho);
  c.set(pre + "u" + S, s.m[0]);
  c.set(pre + "w" + S, s.m[1]);
  c.set(pre + "e" + S, s.e);
  c.set("exact_rho" + S, f.rho.v); c.set("exact_p" + S, f.p.v); c.set("exact_u" + S, f.u[0].v); c.set("exact_w" + S, f.u[1].v);
  if (visc) {
    // recorded deviation of the library (DESIGN sec. 6, finding 12): tau_rz = mu du/dz (no dw/dr), no hoop stress;
    // steady energy additionally has the viscous work with the opposite sign.
    AxiVariant av; av.drop_wr_in_tau_rz = true; av.drop_hoop = true; av.flip_viscous_work = steady_cns;
    Src k = axisymmetric(f, r, c.p("Gamma"), true, mu, kc, R, av);
    c.alt(pre + "u" + S, "known:" + c.sol + ":r-momentum:tau_rz-without-dw/dr-and-no-hoop-stress", k.m[0]);
    c.alt(pre + "w" + S, "known:" + c.sol + ":z-momentum:tau_rz-without-dw/dr", k.m[1]);
    c.alt(pre + "e" + S, std::string("known:") + c.sol + (steady_cns ? ":energy:tau_rz-without-dw/dr-and-viscous-work-sign-flipped" : ":energy:tau_rz-without-dw/dr"), k.e);
  }
}
}  // namespace
void reg_axi() {
  struct { const char* n; const char* p; int na; } L[] = {{"axisymmetric_euler", "C02", 2}, {"axi_euler_transient", "C02", 3},
                                                         {"axisymmetric_navierstokes_compressible", "C03", 2}, {"axi_cns_transient", "C03", 3}};
  for (auto& l : L) {
    Sol s; s.name = l.n; s.prop = l.p; s.nargs = l.na; s.draw = draw; s.point = point; s.eval = eval; s.stretch = 1; s.nodal = roy_nodal;
    s.zero_coord_from = 1;   // r > 0; z and t may be exactly 0
    s.special_ok = [](const std::string& n) {
      if (n.rfind("a_", 0) == 0 || n == "k" || n == "mu" || n == "w_0") return 2;
      if (n.rfind("u_", 0) == 0 || n.rfind("w_", 0) == 0) return 2;
      if (n.rfind("rho_", 0) == 0 || n.rfind("p_", 0) == 0) return (n == "rho_0" || n == "p_0") ? 0 : 1;
      return 0;
    };
    add(s);
  }
}
}  // namespace orc
