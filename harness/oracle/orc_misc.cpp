// C04: laplace_2d and burgers_equation (laplace.page, burgers.page).
#include "oracle.hpp"
#include "roy.hpp"
namespace orc {
namespace {
void draw_laplace(vh::Rng& r, Draw& d, const std::vector<std::string>& names) { for (auto& n : names) d.set(n, len(r)); }
void eval_laplace(Ctx& c) {
  J x = c.var(0), y = c.var(1);
  EQ Lx = c.p("Lx"), Ly = c.p("Ly");
  J phi = sq(Ly - y) * sq(Ly + y) + sq(Lx - x) * sq(Lx + x);
  c.set("exact_phi/S2", phi.v);
  c.set("source_f/S2", phi.H(0, 0) + phi.H(1, 1));
}
void eval_burgers(Ctx& c) {
  // documented fields (burgers.page): u: sin, cos, cos(t); v: cos, sin, sin(t)
  J u = roy_field(c, "u", "sc", 'c', 2, 2), v = roy_field(c, "v", "cs", 's', 2, 2);
  // the API's 3-argument sources are the transient inviscid pair
  c.set("source_u/S3", d(u, 2) + d(u * u, 0) + d(u * v, 1));
  c.set("source_v/S3", d(v, 2) + d(u * v, 0) + d(v * v, 1));
  c.set("exact_u/S3", u.v);
  c.set("exact_v/S3", v.v);
  // two-argument exact fields: the t-independent part of the three-argument ones
  c.set("exact_u/S2", roy_field(c, "u", "sc", 'c', 2, -1).v);
  c.set("exact_v/S2", roy_field(c, "v", "cs", 's', 2, -1).v);
}
}  // namespace
void reg_misc() {
  { Sol s; s.name = "laplace_2d"; s.prop = "C04"; s.nargs = 2; s.draw = draw_laplace; s.point = box_point; s.eval = eval_laplace; s.stretch = 1; s.special_ok = [](const std::string&) { return 2; }; add(s); }
  { Sol s; s.name = "burgers_equation"; s.prop = "C04"; s.nargs = 3; s.draw = roy_draw; s.point = box_point; s.eval = eval_burgers; s.stretch = 1; s.nodal = roy_nodal; s.special_ok = [](const std::string& n) { return n == "nu" ? 2 : default_special_ok(n); }; add(s); }
}
}  // namespace orc
