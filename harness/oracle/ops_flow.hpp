// Governing operators of compressible flow, written as in the PDE text, in conservative form, on jets.
#pragma once
#include "oracle.hpp"
namespace orc {

struct Flow {
  J rho, u[3], p;
  int dim = 1;     // number of spatial variables (jet variables 0..dim-1)
  int it = -1;     // jet variable index of time, -1 if steady
};
struct Src { EQ rho, m[3], e; };

inline EQ two_thirds() { return EQ::c(2) / EQ::c(3); }

// Cartesian Euler / Navier-Stokes (cns.page): Stokes stress, q = -k grad T, T = p/(rho R),
// e_t = p/((Gamma-1) rho) + |u|^2/2, H = e_t + p/rho.
inline Src cartesian(const Flow& f, const EQ& Gamma, bool viscous, const EQ& mu, const EQ& kc, const EQ& R) {
  Src s;
  int n = f.dim;
  J ke = J(EQ::c(0));
  for (int i = 0; i < n; i++) ke = ke + f.u[i] * f.u[i];
  J et = f.p / ((Gamma - 1.0) * f.rho) + 0.5 * ke;
  J H = et + f.p / f.rho;
  // inviscid part
  for (int i = 0; i < n; i++) s.rho += d(f.rho * f.u[i], i);
  if (f.it >= 0) s.rho += d(f.rho, f.it);
  for (int a = 0; a < n; a++) {
    for (int i = 0; i < n; i++) s.m[a] += d(f.rho * f.u[a] * f.u[i], i);
    s.m[a] += d(f.p, a);
    if (f.it >= 0) s.m[a] += d(f.rho * f.u[a], f.it);
  }
  for (int i = 0; i < n; i++) s.e += d(f.rho * f.u[i] * H, i);
  if (f.it >= 0) s.e += d(f.rho * et, f.it);
  if (viscous) {
    J div = J(EQ::c(0));
    for (int i = 0; i < n; i++) div = div + D(f.u[i], i);
    J tau[3][3];
    for (int a = 0; a < n; a++)
      for (int b = 0; b < n; b++) {
        tau[a][b] = mu * (D(f.u[a], b) + D(f.u[b], a));
        if (a == b) tau[a][b] = tau[a][b] - (two_thirds() * mu) * div;
      }
    J Tm = f.p / (f.rho * R);
    for (int a = 0; a < n; a++)
      for (int b = 0; b < n; b++) s.m[a] -= d(tau[a][b], b);
    for (int b = 0; b < n; b++) {
      s.e -= d(kc * D(Tm, b), b);                       // + div q, q = -k grad T
      J work = J(EQ::c(0)); work.ord = 1;
      for (int a = 0; a < n; a++) work = work + tau[a][b] * f.u[a];
      s.e -= d(work, b);                                 // - div(tau . u)
    }
  }
  return s;
}

// Axisymmetric (r = variable 0, z = variable 1), no swirl. u[0] = radial, u[1] = axial velocity.
struct AxiVariant { bool drop_wr_in_tau_rz = false; bool drop_hoop = false; bool flip_viscous_work = false; };
inline Src axisymmetric(const Flow& f, const J& r, const EQ& Gamma, bool viscous, const EQ& mu, const EQ& kc, const EQ& R, const AxiVariant& av = AxiVariant()) {
  Src s;
  const int Rr = 0, Zz = 1;
  const J &u = f.u[0], &w = f.u[1];
  J et = f.p / ((Gamma - 1.0) * f.rho) + 0.5 * (u * u + w * w);
  J H = et + f.p / f.rho;
  auto divr = [&](const J& Fr) { return d(r * Fr, Rr) / r.v; };   // (1/r) d_r (r F_r)
  s.rho = divr(f.rho * u) + d(f.rho * w, Zz);
  s.m[0] = divr(f.rho * u * u) + d(f.rho * u * w, Zz) + d(f.p, Rr);
  s.m[1] = divr(f.rho * u * w) + d(f.rho * w * w, Zz) + d(f.p, Zz);
  s.e = divr(f.rho * u * H) + d(f.rho * w * H, Zz);
  if (f.it >= 0) {
    s.rho += d(f.rho, f.it);
    s.m[0] += d(f.rho * u, f.it);
    s.m[1] += d(f.rho * w, f.it);
    s.e += d(f.rho * et, f.it);
  }
  if (viscous) {
    J ur = D(u, Rr), uz = D(u, Zz), wr = D(w, Rr), wz = D(w, Zz);
    J uor = u / r; uor.ord = 1;
    J div = ur + uor + wz;
    EQ l = two_thirds() * mu;
    J trr = (2.0 * mu) * ur - l * div;
    J tzz = (2.0 * mu) * wz - l * div;
    J ttt = (2.0 * mu) * uor - l * div;
    J trz = av.drop_wr_in_tau_rz ? mu * uz : mu * (uz + wr);
    s.m[0] -= divr(trr) + d(trz, Zz);
    if (!av.drop_hoop) s.m[0] += ttt.v / r.v;
    s.m[1] -= divr(trz) + d(tzz, Zz);
    J Tm = f.p / (f.rho * R);
    s.e -= divr(kc * D(Tm, Rr)) + d(kc * D(Tm, Zz), Zz);          // + div q
    EQ work = divr(trr * u + trz * w) + d(trz * u + tzz * w, Zz);  // div(tau . u)
    if (av.flip_viscous_work) s.e += work; else s.e -= work;
  }
  return s;
}

}  // namespace orc
