// utility: prints every catalogue entry's scalar/vector parameter names and defaults (not a check)
#include "common.hpp"
using namespace vh;
int main(int argc, char** argv) {
  LOG.open("/dev/null"); CAP.install();
  FILE* o = fopen(getarg(argc, argv, "--to", "/dev/stderr").c_str(), "w");
  for (auto& s : catalogue()) {
    if (s.name == "masa_test_function") continue;
    MASA::masa_init<long double>("h", s.name);
    auto ns = param_names<long double>();
    fprintf(o, "%s (%zu):", s.name.c_str(), ns.size());
    for (auto& n : ns) fprintf(o, " %s=%.6Lg", n.c_str(), MASA::masa_get_param<long double>(n));
    for (auto& n : vec_names<long double>()) fprintf(o, " VEC:%s", n.c_str());
    fprintf(o, "\n");
  }
  return 0;
}
