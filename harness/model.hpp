// Sequential reference model of the MASA registry and parameter store, and the step-by-step comparison of
// the real library against it. Everything is observed at the public API boundary (names are learnt by parsing
// masa_display_param / masa_display_vec); the MASA_VERIF hooks only shorten the distance between fault and detection.
#pragma once
#include "common.hpp"
#include <functional>

namespace vh {

template <class S> inline S marker() { return S(-12345.67); }
template <class S> inline S sentinel() { return S(-1.33); }

template <class S>
struct Inst {
  std::string sol;
  std::map<std::string, S> sc, sc0;                    // scalars now / right after masa_init
  std::map<std::string, std::vector<S>> vec, vec0;     // vectors now / right after masa_init
  long version = 0;                                     // bumped on every mutation (C10 keys)
  bool wild = false;                                    // holds values outside the "sane" neighbourhood of the defaults
};

extern long G_VERSION;   // process-wide counter: every (re-)initialisation and every mutation gets a fresh version
inline long next_version() { return ++G_VERSION; }

struct EvalRec { int ev; long double a[4]; int idx; std::string bits; };

template <class S>
struct Model {
  std::map<std::string, Inst<S>> h;
  std::string sel;                                      // "" = nothing initialised yet
  std::map<std::string, Inst<S>> defaults;              // first observed post-init snapshot per solution type
  std::map<std::string, std::vector<EvalRec>> recent;   // per handle: evaluations at the current version (for twin reproduction)
  Inst<S>& cur() { return h[sel]; }
};

struct Counters {
  long steps = 0, snapshots = 0, evals = 0, repeats = 0, fatal_ok = 0, twin = 0, checkpoints = 0, listed = 0, display = 0, radiation_refs = 0;
};
extern Counters CNT;
extern std::vector<std::string> HISTORY;     // operations executed so far in this shard (replay / evidence)
extern size_t HISTORY_CAP;
void hist(const std::string& op);
std::string hist_tail(size_t n = 12);
// violation with the failing history prefix attached; emitted once per (prop,key) per shard, the rest counted
void hviol(const std::string& prop, const std::string& key, const std::string& msg, const std::string& detail = "{}");
void flush_viol_counts();

template <class S> std::string sval(S v) { return jnum((long double)v) + "[" + bits(v) + "]"; }

// ---------------------------------------------------------------- observation
template <class S> struct Snap { std::map<std::string, S> sc; std::map<std::string, std::vector<S>> vec; std::string raw_names; };

template <class S> Snap<S> observe() {
  Snap<S> s;
  for (auto& n : param_names<S>()) { CAP.begin(); s.sc[n] = MASA::masa_get_param<S>(n); CAP.end(); }
  for (auto& n : vec_names<S>()) { std::vector<S> v; CAP.begin(); MASA::masa_get_vec<S>(n, v); CAP.end(); s.vec[n] = v; }
  CNT.snapshots++;
  return s;
}

// compare the selected instance with the model; on mismatch report under `prop` with `keypre` and resync the model
template <class S> bool compare_selected(Model<S>& m, const std::string& prop, const std::string& keypre, const std::string& why, bool resync = true) {
  Inst<S>& in = m.cur();
  Snap<S> s = observe<S>();
  bool ok = true;
  const std::string P = ST<S>::name();
  if (s.sc.size() != in.sc.size()) { ok = false; hviol(prop, keypre + ":parameter-set-changed:" + in.sol, why + ": number of scalar parameters " + std::to_string(s.sc.size()) + " != model " + std::to_string(in.sc.size())); }
  for (auto& kv : s.sc) {
    auto it = in.sc.find(kv.first);
    if (it == in.sc.end()) { ok = false; hviol(prop, keypre + ":unknown-parameter:" + in.sol, why + ": library shows parameter " + kv.first + " unknown to the model"); continue; }
    if (!biteq(kv.second, it->second)) {
      ok = false;
      hviol(prop, keypre + ":" + in.sol + ":" + kv.first, why + ": parameter " + kv.first + " of handle '" + m.sel + "' (" + in.sol + ", " + P + ") is " + sval(kv.second) + ", model expects " + sval(it->second),
            JObj().str("handle", m.sel).str("solution", in.sol).str("precision", P).str("parameter", kv.first).num("library", (long double)kv.second).num("model", (long double)it->second).done());
    }
  }
  for (auto& kv : s.vec) {
    auto it = in.vec.find(kv.first);
    bool same = it != in.vec.end() && it->second.size() == kv.second.size();
    if (same) for (size_t i = 0; i < kv.second.size(); i++) if (!biteq(kv.second[i], it->second[i])) same = false;
    if (!same) {
      ok = false;
      hviol(prop, keypre + ":" + in.sol + ":vector:" + kv.first, why + ": vector " + kv.first + " of handle '" + m.sel + "' differs from the model (library length " + std::to_string(kv.second.size()) +
                                                                    ", model length " + (it == in.vec.end() ? std::string("n/a") : std::to_string(it->second.size())) + ")");
    }
  }
  if (s.vec.size() != in.vec.size()) { ok = false; hviol(prop, keypre + ":vector-set-changed:" + in.sol, why + ": number of vector parameters differs"); }
  if (!ok && resync) { in.sc = s.sc; in.vec = s.vec; in.version = next_version(); m.recent[m.sel].clear(); }
  return ok;
}

template <class S> std::string listing() { CAP.begin(); MASA::masa_list_mms<S>(); return CAP.end(); }

// registry identity: name, dimension, listing, hooks
template <class S> bool compare_identity(Model<S>& m, const std::string& prop, const std::string& why) {
  bool ok = true;
  const std::string P = ST<S>::name();
  if (m.sel.empty()) return true;
  std::string nm; CAP.begin(); MASA::masa_get_name<S>(&nm); CAP.end();
  if (nm != m.cur().sol) { ok = false; hviol(prop, "get_name-mismatch", why + ": masa_get_name<" + P + "> = '" + nm + "', model says handle '" + m.sel + "' holds " + m.cur().sol); }
  int dim = -7; CAP.begin(); MASA::masa_get_dimension<S>(&dim); CAP.end();
  const SolSpec* sp = find_sol(m.cur().sol);
  if (sp && dim != sp->dim) { ok = false; hviol(prop, "get_dimension-mismatch:" + m.cur().sol, why + ": masa_get_dimension = " + std::to_string(dim) + ", expected " + std::to_string(sp->dim)); }
  std::string hs = MASA::masa_verif_selected_handle<S>();
  if (hs != m.sel) { ok = false; hviol(prop, "selection-mismatch", why + ": library has handle '" + hs + "' selected, model '" + m.sel + "' (" + P + ")"); }
  if (MASA::masa_verif_registry_size<S>() != m.h.size()) { ok = false; hviol(prop, "registry-size-mismatch", why + ": registry holds " + std::to_string(MASA::masa_verif_registry_size<S>()) + " handles, model " + std::to_string(m.h.size())); }
  // conservation (C19): every solution object alive is owned by a registered handle
  if (MASA::masa_verif_live_objects<S>() != (long)MASA::masa_verif_registry_size<S>())
    hviol("C19", std::string("live-objects-not-conserved:") + P, why + ": " + std::to_string(MASA::masa_verif_live_objects<S>()) + " solution objects alive, " + std::to_string(MASA::masa_verif_registry_size<S>()) + " handles registered");
  std::map<std::string, std::string> lm; long cnt;
  bool parsed = parse_list(listing<S>(), lm, cnt);
  CNT.listed++;
  bool same = parsed && cnt == (long)m.h.size() && lm.size() == m.h.size();
  if (same) for (auto& kv : m.h) { auto it = lm.find(kv.first); if (it == lm.end() || it->second != kv.second.sol) same = false; }
  if (!same) {
    ok = false;
    std::string got; for (auto& kv : lm) got += kv.first + ":" + kv.second + " ";
    std::string want; for (auto& kv : m.h) want += kv.first + ":" + kv.second.sol + " ";
    hviol(prop, "listing-mismatch", why + ": masa_list_mms<" + P + "> reports {" + got + "} (count " + std::to_string(cnt) + "), model {" + want + "}");
  }
  return ok;
}

}  // namespace vh
