#include "common.hpp"
#include <signal.h>

namespace vh {

Log LOG;
Capture CAP;
Worker& WORKER = *new Worker;   // never destroyed: its thread waits on the condition variable for the life of the process

// ---------------------------------------------------------------- API table
template <class S, int N> struct FnS;
template <class S> struct FnS<S, 1> { typedef S (*type)(S); };
template <class S> struct FnS<S, 2> { typedef S (*type)(S, S); };
template <class S> struct FnS<S, 3> { typedef S (*type)(S, S, S); };
template <class S> struct FnS<S, 4> { typedef S (*type)(S, S, S, S); };
template <class S, int N> struct FnI;
template <class S> struct FnI<S, 2> { typedef S (*type)(S, S, int); };
template <class S> struct FnI<S, 3> { typedef S (*type)(S, S, S, int); };
template <class S> struct FnI<S, 4> { typedef S (*type)(S, S, S, S, int); };

static std::vector<Ev> build_api() {
  std::vector<Ev> v;
#define EV_S(nm, N) v.push_back(Ev{#nm, KS, N, std::string(#nm) + "/S" #N, (void*)static_cast<FnS<double, N>::type>(&MASA::masa_eval_##nm<double>), (void*)static_cast<FnS<long double, N>::type>(&MASA::masa_eval_##nm<long double>)});
#define EV_I(nm, N) v.push_back(Ev{#nm, KI, N, std::string(#nm) + "/I" #N, (void*)static_cast<FnI<double, N>::type>(&MASA::masa_eval_##nm<double>), (void*)static_cast<FnI<long double, N>::type>(&MASA::masa_eval_##nm<long double>)});
#define EV_F(nm) v.push_back(Ev{#nm, KF, 1, std::string(#nm) + "/F1", (void*)static_cast<double (*)(double, double (*)(double))>(&MASA::masa_eval_##nm<double>), (void*)static_cast<long double (*)(long double, long double (*)(long double))>(&MASA::masa_eval_##nm<long double>)});
#define EV_K(nm) v.push_back(Ev{#nm, KK, 0, std::string(#nm) + "/K0", (void*)static_cast<double (*)(int)>(&MASA::masa_eval_##nm<double>), (void*)static_cast<long double (*)(int)>(&MASA::masa_eval_##nm<long double>)});
#define EV_Z(nm) v.push_back(Ev{#nm, KZ, 0, std::string(#nm) + "/Z0", (void*)static_cast<double (*)()>(&MASA::masa_eval_##nm<double>), (void*)static_cast<long double (*)()>(&MASA::masa_eval_##nm<long double>)});
#include "spec/api_table.def"
#undef EV_S
#undef EV_I
#undef EV_F
#undef EV_K
#undef EV_Z
  return v;
}

const std::vector<Ev>& api() { static std::vector<Ev> v = build_api(); return v; }

int ev_index(const std::string& id) {
  static std::map<std::string, int> m;
  if (m.empty()) for (size_t i = 0; i < api().size(); i++) m[api()[i].id] = (int)i;
  auto it = m.find(id);
  return it == m.end() ? -1 : it->second;
}

template <class S> static void* fptr(const Ev& e);
template <> void* fptr<double>(const Ev& e) { return e.fd; }
template <> void* fptr<long double>(const Ev& e) { return e.fl; }

template <class S> S call_ev(const Ev& e, const S* a, int idx, FP<S> fp) {
  void* f = fptr<S>(e);
  switch (e.kind) {
    case KS:
      switch (e.n) {
        case 1: return ((typename FnS<S, 1>::type)f)(a[0]);
        case 2: return ((typename FnS<S, 2>::type)f)(a[0], a[1]);
        case 3: return ((typename FnS<S, 3>::type)f)(a[0], a[1], a[2]);
        case 4: return ((typename FnS<S, 4>::type)f)(a[0], a[1], a[2], a[3]);
      }
      break;
    case KI:
      switch (e.n) {
        case 2: return ((typename FnI<S, 2>::type)f)(a[0], a[1], idx);
        case 3: return ((typename FnI<S, 3>::type)f)(a[0], a[1], a[2], idx);
        case 4: return ((typename FnI<S, 4>::type)f)(a[0], a[1], a[2], a[3], idx);
      }
      break;
    case KF: return ((S(*)(S, S (*)(S)))f)(a[0], fp);
    case KK: return ((S(*)(int))f)(idx);
    case KZ: return ((S(*)())f)();
  }
  fprintf(stderr, "call_ev: bad table entry %s\n", e.id.c_str());
  _exit(2);
}
template double call_ev<double>(const Ev&, const double*, int, FP<double>);
template long double call_ev<long double>(const Ev&, const long double*, int, FP<long double>);

// ---------------------------------------------------------------- catalogue
std::vector<std::string> split(const std::string& s, char c) {
  std::vector<std::string> o; std::string cur;
  for (char ch : s) { if (ch == c) { o.push_back(cur); cur.clear(); } else cur += ch; }
  o.push_back(cur);
  return o;
}

static std::vector<SolSpec> load_catalogue() {
  std::vector<SolSpec> v;
  const char* d = getenv("VERIF_SPEC");
  std::string path = std::string(d ? d : "/verif/spec") + "/catalogue.txt";
  std::ifstream in(path);
  if (!in) { fprintf(stderr, "cannot read %s\n", path.c_str()); _exit(2); }
  std::string line;
  while (std::getline(in, line)) {
    if (line.empty() || line[0] == '#') continue;
    std::istringstream is(line);
    std::string w; is >> w;
    if (w == "sol") { SolSpec s; is >> s.name >> s.dim; std::string f; s.fixture = bool(is >> f) && f == "fixture"; v.push_back(s); }
    else if (w == "prov") { while (is >> w) v.back().prov.insert(w); }
    else if (w == "unspec") { while (is >> w) v.back().unspec.insert(w); }
  }
  for (auto& s : v) for (auto& e : s.prov) if (ev_index(e) < 0) { fprintf(stderr, "catalogue: unknown evaluator %s in %s\n", e.c_str(), s.name.c_str()); _exit(2); }
  return v;
}
const std::vector<SolSpec>& catalogue() { static std::vector<SolSpec> v = load_catalogue(); return v; }
const SolSpec* find_sol(const std::string& name) { for (auto& s : catalogue()) if (s.name == name) return &s; return nullptr; }

// ---------------------------------------------------------------- boundary parsing
static std::vector<std::string> parse_names(const std::string& out, const std::string& sep) {
  std::vector<std::string> names;
  for (auto& l : split(out, '\n')) {
    size_t p = l.find(sep);
    if (p != std::string::npos && p > 0) names.push_back(l.substr(0, p));
  }
  return names;
}
template <class S> std::vector<std::string> param_names() {
  CAP.begin(); MASA::masa_display_param<S>(); return parse_names(CAP.end(), " is set to: ");
}
template <class S> std::vector<std::string> vec_names() {
  CAP.begin(); MASA::masa_display_vec<S>(); return parse_names(CAP.end(), " is size: ");
}
template std::vector<std::string> param_names<double>();
template std::vector<std::string> param_names<long double>();
template std::vector<std::string> vec_names<double>();
template std::vector<std::string> vec_names<long double>();

bool parse_list(const std::string& out, std::map<std::string, std::string>& m, long& count) {
  m.clear(); count = -1;
  auto ls = split(out, '\n');
  size_t i = 0;
  for (; i < ls.size(); i++) {
    const std::string k = "Number of initialized solutions: ";
    size_t p = ls[i].find(k);
    if (p != std::string::npos) { count = atol(ls[i].c_str() + p + k.size()); i++; break; }
  }
  if (count < 0) return false;
  for (long n = 0; n < count && i < ls.size(); i++, n++) {
    size_t p = ls[i].rfind(" : ");
    if (p == std::string::npos) return false;
    m[ls[i].substr(0, p)] = ls[i].substr(p + 3);
  }
  return true;
}

}  // namespace vh

// ---------------------------------------------------------------- crash context
namespace vh {
static char g_ctx[4096] = "";
static char g_ctxkey[512] = "";
static volatile int g_ended = 0;
static int g_logfd = -1;

void set_ctx(const std::string& ctxkey, const std::string& ctx) {
  snprintf(g_ctxkey, sizeof g_ctxkey, "%s", jesc(ctxkey).c_str());
  snprintf(g_ctx, sizeof g_ctx, "%s", jesc(ctx).c_str());
}
static void emit_crash(const char* what) {
  if (g_logfd < 0 && LOG.f) g_logfd = fileno(LOG.f);
  if (g_logfd < 0) return;
  char buf[5200];
  int n = snprintf(buf, sizeof buf, "\n{\"t\":\"crash\",\"what\":\"%s\",\"ctxkey\":\"%s\",\"ctx\":\"%s\"}\n", what, g_ctxkey, g_ctx);
  if (n > 0) { ssize_t r = write(g_logfd, buf, (size_t)n); (void)r; }
}
static void on_signal(int sig) {
  char w[32]; snprintf(w, sizeof w, "signal %d", sig);
  emit_crash(w);
  signal(sig, SIG_DFL);
  raise(sig);
}
void crash_now(const char* what) { emit_crash(what); g_ended = true; _exit(3); }
static void on_exit_hook() { if (!g_ended) emit_crash("exit() called by code under test"); }
extern "C" void __asan_on_error() { emit_crash("sanitizer report"); }
void install_crash_handlers() {
  if (LOG.f) g_logfd = fileno(LOG.f);
#ifndef __SANITIZE_ADDRESS__
  // handlers run on an alternate stack so that a stack overflow in the code under test still names its context
  static char altstack[1 << 16];
  stack_t ss; ss.ss_sp = altstack; ss.ss_size = sizeof altstack; ss.ss_flags = 0;
  sigaltstack(&ss, nullptr);
  for (int s : {SIGSEGV, SIGBUS, SIGFPE, SIGILL, SIGABRT}) {
    struct sigaction sa; memset(&sa, 0, sizeof sa);
    sa.sa_handler = on_signal; sa.sa_flags = SA_ONSTACK | SA_RESETHAND; sigemptyset(&sa.sa_mask);
    sigaction(s, &sa, nullptr);
  }
#else
  // under AddressSanitizer its own handlers report (stack overflow included) and call __asan_on_error
  for (int s : {SIGFPE, SIGILL, SIGABRT}) signal(s, on_signal);
#endif
  atexit(on_exit_hook);
}
void report_env_names();
void end_ok() { report_env_names(); g_ended = 1; LOG.line("{\"t\":\"end\"}"); }
void harness_fail(const std::string& msg) {
  g_ended = 1;
  if (LOG.f) LOG.line(JObj().str("t", "harness_fail").str("msg", msg).done());
  fprintf(stderr, "harness failure: %s\n", msg.c_str());
  _exit(2);
}
}  // namespace vh

// ---------------------------------------------------------------- fatal paths
namespace vh {
void child_mode() { g_ended = 1; }
Outcome in_child(const std::function<void()>& f) {
  Outcome o;
  CAP.begin();
  fflush(nullptr);
  pid_t pid = fork();
  if (pid < 0) harness_fail("fork failed");
  if (pid == 0) {
    child_mode();
    for (int s : {SIGSEGV, SIGBUS, SIGFPE, SIGILL, SIGABRT}) signal(s, SIG_DFL);
    try { f(); } catch (int c) { std::cout.flush(); fflush(stdout); _exit(100 + (c & 15)); } catch (...) { _exit(99); }
    std::cout.flush(); fflush(stdout);
    _exit(0);
  }
  int st = 0;
  if (waitpid(pid, &st, 0) < 0) harness_fail("waitpid failed");
  o.out = CAP.end();
  if (WIFSIGNALED(st)) { o.abnormal = true; o.what = "child killed by signal " + std::to_string(WTERMSIG(st)); }
  else {
    int c = WEXITSTATUS(st);
    if (c == 0) { o.fatal = false; }
    else if (c >= 100 && c < 116) { o.fatal = true; o.code = c - 100; }   // exception escaped in an exc build
    else if (c == 99) { o.abnormal = true; o.what = "foreign exception"; }
    else { o.fatal = true; o.code = c; }
  }
  return o;
}
Outcome guarded(const std::function<void()>& f, bool expect_fatal) {
  if (kExceptions) {
    Outcome o;
    CAP.begin();
    try { f(); } catch (int c) { o.fatal = true; o.code = c; } catch (...) { o.abnormal = true; o.what = "foreign exception"; }
    o.out = CAP.end();
    return o;
  }
  if (expect_fatal) return in_child(f);
  Outcome o;
  CAP.begin();
  f();
  o.out = CAP.end();
  return o;
}
}  // namespace vh

// ---------------------------------------------------------------- environment variables consulted while the library runs
// The harness defines getenv itself (the definition in the executable wins over libc's for every caller linked into it, i.e. the harness and
// the library under test), records the names asked for and forwards to libc. Not under the sanitizers, whose runtimes interpose getenv themselves.
#if !defined(__SANITIZE_ADDRESS__) && !defined(__SANITIZE_THREAD__)
#if defined(__has_feature)
#if __has_feature(address_sanitizer)
#define VH_NO_GETENV_HOOK 1
#endif
#endif
#ifndef VH_NO_GETENV_HOOK
#include <dlfcn.h>
namespace vh { static char g_env_names[64][64]; static int g_env_n = 0; }
extern "C" char* getenv(const char* name) {
  typedef char* (*fn)(const char*);
  static fn real = (fn)dlsym(RTLD_NEXT, "getenv");
  if (name && vh::g_env_n < 64) {
    bool seen = false;
    for (int i = 0; i < vh::g_env_n; i++) if (!strncmp(vh::g_env_names[i], name, 63)) { seen = true; break; }
    if (!seen) { strncpy(vh::g_env_names[vh::g_env_n], name, 63); vh::g_env_names[vh::g_env_n][63] = 0; vh::g_env_n++; }
  }
  return real ? real(name) : nullptr;
}
namespace vh { void report_env_names() { for (int i = 0; i < g_env_n; i++) LOG.distinct("environment_variables_consulted", g_env_names[i]); } }
#else
namespace vh { void report_env_names() {} }
#endif
#else
namespace vh { void report_env_names() {} }
#endif
