// History monitor (C10, C11, C12, C16): drives the public API with generated operation sequences over several
// handles and both precisions and compares every observable step by step with the sequential model (model.hpp).
//   --mode random      long random histories (weights by --focus store|registry|purity|fatal)
//   --mode sweep       C11 systematic part: every name of every solution set/restored/purged
//   --mode exhaustive  C12 bounded-exhaustive: all sequences over a small alphabet, each in a forked child
//   --mode preinit     C16: every solution-dependent API function on an empty registry
#include "model.hpp"
using namespace vh;
using namespace MASA;


#include "ops.hpp"

// ------------------------------------------------------------------ random histories
template <class S> static void random_step(Ops<S>& o) {
  Model<S>& m = o.m;
  if (m.sel.empty()) { o.init(rand_handle(), pick_sol()); return; }
  // focus-specific weights
  int Winit = 6, Wsel = 10, Wset = 20, Wbad = 5, Wget = 6, Wip = 4, Wpurge = 2, Wsan = 5, Wvec = 8, Wdisp = 2, Weval = 20, Wtwin = 2, Wfatal = 4, Wchk = 2;
  if (g_focus == "registry") { Winit = 14; Wsel = 24; Wset = 18; Weval = 8; Wvec = 3; Wbad = 2; Wchk = 5; Wfatal = 2; }
  if (g_focus == "purity") { Weval = 45; Wset = 10; Wtwin = 5; Wsel = 12; Wvec = 6; Wbad = 1; Wfatal = 1; Wdisp = 1; }
  if (g_focus == "fatal") { Wfatal = 25; Weval = 8; }
  int w = R->below(Winit + Wsel + Wset + Wbad + Wget + Wip + Wpurge + Wsan + Wvec + Wdisp + Weval + Wtwin + Wfatal + Wchk);
  int acc = 0;
  auto hit = [&](int wt) { acc += wt; return w < acc; };
  if (hit(Winit)) {
    // includes re-initialisation of a live handle and two handles of one type
    std::string h = rand_handle();
    std::string sol = (R->below(4) == 0 && !m.h.empty()) ? m.h.begin()->second.sol : pick_sol();
    o.init(h, sol);
  } else if (hit(Wsel)) { auto it = m.h.begin(); std::advance(it, R->below((int)m.h.size())); o.select(it->first); }
  else if (hit(Wset)) o.set_param();
  else if (hit(Wbad)) o.set_invalid();
  else if (hit(Wget)) o.get_param();
  else if (hit(Wip)) o.init_param();
  else if (hit(Wpurge)) o.purge();
  else if (hit(Wsan)) o.sanity();
  else if (hit(Wvec)) o.set_vec();
  else if (hit(Wdisp)) { if (R->below(6) == 0) o.fixture_display(); else o.display(); }
  else if (hit(Weval)) o.eval();
  else if (hit(Wtwin)) o.twin();
  else if (hit(Wfatal)) o.fatal_op();
  else o.checkpoint();
}

static void run_random(long nsteps) {
  Model<double> md; Model<long double> ml;
  Ops<double> od(md); Ops<long double> ol(ml);
  for (long i = 0; i < nsteps; i++) {
    // ops on one precision never change any observation on the other: both models are checked at checkpoints
    if (R->below(3) == 0) random_step(ol); else random_step(od);
    if (i % 200 == 199) { od.checkpoint(); ol.checkpoint(); }
  }
  od.checkpoint(); ol.checkpoint();
  LOG.count("distinct_evaluation_keys", od.LOG_distinct_keys + ol.LOG_distinct_keys);
  std::set<std::string> sols;
  for (auto& kv : md.defaults) sols.insert(kv.first);
  for (auto& kv : ml.defaults) sols.insert(kv.first);
  for (auto& s : sols) LOG.distinct("solutions_initialised", s);
  LOG.sample(JObj().str("kind", "random history (last operations)").raw("ops", jarrs(std::vector<std::string>(HISTORY.end() - (long)std::min<size_t>(HISTORY.size(), 14), HISTORY.end()))).done());
}

// ------------------------------------------------------------------ many handles (C12) and large vectors (C11): count / size thresholds
template <class S> static void many_handles(int n) {
  Model<S> m; Ops<S> o(m);
  const std::string P = ST<S>::name();
  std::vector<std::string> hs;
  for (int i = 0; i < n; i++) {
    // handle names of growing length and mixed characters; every handle holds a distinctive value on one of its parameters
    std::string h = "many-" + std::to_string(i) + std::string((size_t)(i % 97), "xyZ_ -"[i % 6]);
    o.init(h, SOLS[(size_t)R->below((int)SOLS.size())]);
    hs.push_back(h);
    std::string pn = o.pick_name();
    if (!pn.empty() && !(m.cur().sol == "sod_1d" && !kExceptions)) {
      S v = (S)(1000.0L + i + R->uni(0.0L, 0.5L));
      CAP.begin(); masa_set_param<S>(pn, v); CAP.end();
      m.cur().sc[pn] = v; m.cur().version = next_version();
    }
    if (i % 64 == 63) compare_identity(m, "C12", "many handles: after " + std::to_string(i + 1) + " inits");
  }
  // visit every handle in a random order: name, dimension, the whole parameter snapshot
  for (size_t i = hs.size(); i > 1; i--) std::swap(hs[i - 1], hs[(size_t)R->below((int)i)]);
  for (size_t i = 0; i < hs.size(); i++) {
    o.select(hs[i]);
    if (i % 16 == 0) { o.eval(); }
  }
  // re-initialise a tenth of them with other solution types, then visit everything again
  for (int i = 0; i < n / 10; i++) o.init(hs[(size_t)R->below((int)hs.size())], SOLS[(size_t)R->below((int)SOLS.size())]);
  o.checkpoint();
  LOG.count("many_handles_registered", n);
}
template <class S> static void large_vectors() {
  Model<S> m; Ops<S> o(m);
  o.init("big", "radiation_integrated_intensity");
  auto& in = m.cur();
  for (int len : {1000, 300, 100000, 65536, 70, 65, 3, 0, 129, 128, 25}) {
    for (const char* n : {"vec_amp", "vec_mean", "vec_stdev"}) {
      std::vector<S> v((size_t)len);
      for (auto& x : v) x = (S)(n[4] == 'a' ? R->uni(1.0L, 10.0L) : n[4] == 'm' ? R->uni(0.0L, 1.0L) : R->uni(0.02L, 0.5L));
      hist(std::string("masa_set_vec<") + o.P + ">(\"" + n + "\",len " + std::to_string(len) + ") [large vectors]");
      CAP.begin(); masa_set_vec<S>(n, v); CAP.end();
      in.vec[n] = v; in.version = next_version(); m.recent[m.sel].clear();
    }
    compare_selected(m, "C11", "set_vec-leak", "after setting three vectors of length " + std::to_string(len));
    o.sanity();
    if (len > 0) { o.eval(ev_index("source_u/S1")); o.eval(ev_index("exact_u/S1")); o.twin(); }   // and a fresh instance with the same vectors reproduces them
    LOG.count("large_vector_lengths", 1);
  }
  o.init_param();
  o.eval(ev_index("source_u/S1"));
}

// ------------------------------------------------------------------ C10: the same call very many times (state that builds up with the number of calls)
template <class S> static void mill(long n) {
  Model<S> m; Ops<S> o(m);
  static const char* SOLS_[] = {"heateq_1d_steady_const", "euler_1d", "fans_sa_steady_wall_bounded", "sod_1d", "cp_normal", "radiation_integrated_intensity", "euler_chem_1d", "rans_sa"};
  for (const char* sn : SOLS_) {
    const SolSpec* sp = find_sol(sn);
    if (!sp || sp->prov.empty()) continue;
    o.init("mill", sn);
    auto it = sp->prov.begin(); std::advance(it, R->below((int)sp->prov.size()));
    const Ev& e = api()[ev_index(*it)];
    S a[4]; for (int i = 0; i < 4; i++) a[i] = (S)POOL[3][i];
    hist("masa_eval_" + e.id + "<" + o.P + "> on " + sn + " x " + std::to_string(n) + " identical calls");
    CAP.begin();
    S first = call_ev<S>(e, a, 1, cbK<S>());
    long bad = -1; S got = first;
    for (long k = 1; k < n; k++) { S v = call_ev<S>(e, a, 1, cbK<S>()); if (!biteq(v, first)) { bad = k; got = v; break; } }
    CAP.end();
    CNT.evals += n;
    if (bad >= 0) hviol("C10", std::string("evaluation-changes-with-the-number-of-calls:") + sn + ":" + e.id, "identical call number " + std::to_string(bad + 1) + " returned " + sval(got) + ", the first one " + sval(first));
    compare_selected(m, "C10", "evaluator-wrote-parameter:" + e.id, "after " + std::to_string(n) + " identical calls");
    // and a fresh instance still gives the first value
    o.init("mill-twin", sn);
    CAP.begin(); S tw = call_ev<S>(e, a, 1, cbK<S>()); CAP.end();
    if (!biteq(tw, first)) hviol("C10", std::string("evaluation-depends-on-history:") + sn + ":" + e.id, "a fresh handle returned " + sval(tw) + " where the first of " + std::to_string(n) + " calls returned " + sval(first));
    LOG.count("identical_calls_in_a_row", n);
  }
}

// ------------------------------------------------------------------ C11 systematic sweep
template <class S> static void sweep() {
  Model<S> m; Ops<S> o(m);
  long names = 0;
  for (auto& sol : SOLS) {
    o.init("sweep", sol);
    auto& in = m.cur();
    std::vector<std::string> ns; for (auto& kv : in.sc) ns.push_back(kv.first);
    int k = 0;
    for (auto& n : ns) {
      S v = (S)(1000.0L + 3.0L * (k++) + R->uni(0.0L, 1.0L));   // a value no other parameter holds
      hist("sweep: masa_set_param<" + o.P + ">(\"" + n + "\") on " + sol);
      CAP.begin(); masa_set_param<S>(n, v); CAP.end();
      in.sc[n] = v; in.version = next_version();
      compare_selected(m, "C11", "set-leak", "sweep: after setting only '" + n + "'");
      names++;
    }
    o.sanity();
    o.init_param();      // restores every parameter (all ~205 power-law parameters)
    o.sanity();
    if (sol != "sod_1d" || kExceptions) { o.purge(); o.sanity(); o.display(); o.init_param(); }
    LOG.distinct("solutions_initialised", sol);
  }
  LOG.count("sweep_names", names);
}

// ------------------------------------------------------------------ C12 bounded-exhaustive
// alphabet over two handles A,B, two solution types, one parameter of each type, two values
struct Sym { const char* name; };
static const int NSYM = 12;
static const char* SYMS[NSYM] = {"init(A,s1)", "init(B,s1)", "init(B,s2)", "init(A,s2)", "select(A)", "select(B)", "set(p,v1)", "set(p,v2)", "get(p)", "name", "dim", "list"};
static const char* S1 = "euler_1d";
static const char* S2 = "heateq_2d_steady_const";

template <class S> static bool exec_sequence(const std::vector<int>& seq, std::set<std::string>* states) {
  // returns false if the sequence is illegal in the model (skipped); runs in a forked child from the empty registry
  Model<S> m; Ops<S> o(m);
  for (int s : seq) {
    switch (s) {
      case 0: o.init("A", S1); break;
      case 1: o.init("B", S1); break;
      case 2: o.init("B", S2); break;
      case 3: o.init("A", S2); break;
      case 4: case 5: { std::string h = s == 4 ? "A" : "B"; if (!m.h.count(h)) return false; o.select(h); break; }
      case 6: case 7: {
        if (m.sel.empty()) return false;
        std::string n = m.cur().sol == S1 ? "u_x" : "A_x";
        S v = s == 6 ? S(1.25) : S(-7.5);
        hist(std::string("masa_set_param(\"") + n + "\"," + (s == 6 ? "1.25" : "-7.5") + ") on " + m.sel);
        CAP.begin(); masa_set_param<S>(n, v); CAP.end();
        m.cur().sc[n] = v; m.cur().version = next_version();
        compare_selected(m, "C12", "isolation", "after set on '" + m.sel + "'");
        break;
      }
      case 8: { if (m.sel.empty()) return false; std::string n = m.cur().sol == S1 ? "u_x" : "A_x"; hist("masa_get_param(\"" + n + "\")"); CAP.begin(); S g = masa_get_param<S>(n); CAP.end();
        if (!biteq(g, m.cur().sc[n])) hviol("C12", "isolation:get", "get_param(\"" + n + "\") on '" + m.sel + "' returned " + sval(g) + ", model " + sval(m.cur().sc[n])); break; }
      case 9: case 10: case 11: if (m.sel.empty()) return false; hist(SYMS[s]); compare_identity(m, "C12", std::string("exhaustive ") + SYMS[s]); break;
    }
  }
  // final full check of every handle
  if (!m.sel.empty()) o.checkpoint();
  if (states) {
    std::string st = "sel=" + m.sel;
    for (auto& kv : m.h) { st += ";" + kv.first + ":" + kv.second.sol; for (auto& p : kv.second.sc) if (p.first == "u_x" || p.first == "A_x") st += "=" + bits(p.second); }
    states->insert(st);
  }
  return true;
}

static void run_exhaustive(int maxlen, int part, int nparts) {
  // enumerate all sequences starting with an init; each executed in a forked child (pristine global state)
  long total = 0, legal = 0;
  std::set<std::string> states;
  for (int len = 1; len <= maxlen; len++) {
    std::vector<int> seq((size_t)len, 0);
    long count = 1; for (int i = 0; i < len; i++) count *= NSYM;
    for (long c = 0; c < count; c++) {
      long x = c; for (int i = len - 1; i >= 0; i--) { seq[(size_t)i] = (int)(x % NSYM); x /= NSYM; }
      if (seq[0] > 3) continue;                // must start with an init
      if ((c % nparts) != part) continue;
      total++;
      // model legality + state signature are computed in the child and reported through the event log
      bool prec_l = (c / nparts) % 2 == 1;
      CAP.begin();
      fflush(nullptr);
      pid_t pid = fork();
      if (pid == 0) {
        child_mode();
        HISTORY.clear();
        std::set<std::string> st;
        bool ok = prec_l ? exec_sequence<long double>(seq, &st) : exec_sequence<double>(seq, &st);
        if (ok) { LOG.count("exhaustive_sequences_executed", 1); for (auto& s : st) LOG.distinct("exhaustive_model_states", s); }
        fflush(nullptr);
        _exit(ok ? 0 : 3);
      }
      int stt = 0; waitpid(pid, &stt, 0);
      CAP.end();
      if (WIFSIGNALED(stt) || (WEXITSTATUS(stt) != 0 && WEXITSTATUS(stt) != 3)) {
        std::string s; for (int v : seq) s += std::string(SYMS[v]) + " ";
        hviol("C12", "exhaustive-sequence-crashed", "sequence terminated abnormally: " + s);
      } else if (WEXITSTATUS(stt) == 0) legal++;
      if (total % 4000 == 1) { std::string s; for (int v : seq) s += std::string(SYMS[v]) + " "; LOG.sample(JObj().str("kind", "exhaustive sequence").str("ops", s).done()); }
    }
  }
  LOG.count("exhaustive_sequences_enumerated", total);
}

// ------------------------------------------------------------------ C16 pre-init: every solution-dependent function on an empty registry
template <class S> static void preinit() {
  const std::string P = ST<S>::name();
  struct F { std::string name; std::function<void()> f; };
  std::vector<F> fs;
  static S a[4] = {S(0.3), S(0.4), S(0.5), S(0.6)};
  for (auto& e : api()) { const Ev* ep = &e; fs.push_back({"masa_eval_" + e.id, [ep] { call_ev<S>(*ep, a, 1, cbK<S>()); }}); }
  fs.push_back({"masa_set_param", [] { masa_set_param<S>("x", S(1)); }});
  fs.push_back({"masa_get_param", [] { masa_get_param<S>("x"); }});
  fs.push_back({"masa_init_param", [] { masa_init_param<S>(); }});
  fs.push_back({"masa_purge_default_param", [] { masa_purge_default_param<S>(); }});
  fs.push_back({"masa_sanity_check", [] { masa_sanity_check<S>(); }});
  fs.push_back({"masa_display_param", [] { masa_display_param<S>(); }});
  fs.push_back({"masa_display_vec", [] { masa_display_vec<S>(); }});
  fs.push_back({"masa_get_name", [] { std::string s; masa_get_name<S>(&s); }});
  fs.push_back({"masa_get_dimension", [] { int d; masa_get_dimension<S>(&d); }});
  fs.push_back({"masa_set_vec", [] { std::vector<S> v(2); masa_set_vec<S>("v", v); }});
  fs.push_back({"masa_get_vec", [] { std::vector<S> v; masa_get_vec<S>("v", v); }});
  fs.push_back({"masa_test_poly", [] { masa_test_poly<S>(); }});
  fs.push_back({"pass_func", [] { pass_func<S>(cbK<S>(), S(1)); }});
  fs.push_back({"masa_select_mms(unknown)", [] { masa_select_mms<S>("nobody"); }});
  fs.push_back({"masa_init(h,unknown)", [] { masa_init<S>("h", "not_a_solution"); }});
  for (auto& f : fs) {
    hist(f.name + "<" + P + "> on an empty registry");
    Outcome o = guarded(f.f, true);
    LOG.distinct("preinit_functions", f.name + "<" + P + ">");
    if (o.abnormal) { hviol("C16", "preinit-abnormal:" + f.name, f.name + " before masa_init: " + o.what); continue; }
    if (!o.fatal) { hviol("C16", "preinit-not-fatal:" + f.name, f.name + " before masa_init did not abort"); continue; }
    if (o.code != 1) hviol("C16", "preinit-code:" + f.name, f.name + " before masa_init ended with code " + std::to_string(o.code));
    if (o.out.find("MASA FATAL ERROR") == std::string::npos) hviol("C16", "preinit-no-message:" + f.name, f.name + " before masa_init printed no 'MASA FATAL ERROR'");
    CNT.fatal_ok++;
    if (kExceptions) {
      // still empty, still usable
      if (masa_verif_registry_size<S>() != 0 || masa_verif_selected_handle<S>() != "") hviol("C16", "preinit-changed-registry:" + f.name, f.name + " on an empty registry left something registered");
    }
  }
  if (kExceptions) {
    // "remains usable": a normal session works after all those failures
    Model<S> m; Ops<S> o(m);
    o.init("after", "euler_1d"); o.set_param(); o.eval(); o.checkpoint();
  }
}

int main(int argc, char** argv) {
  LOG.open(getarg(argc, argv, "--out"));
  CAP.install();
  install_crash_handlers();
  uint64_t seed = strtoull(getarg(argc, argv, "--seed", "1").c_str(), 0, 10);
  int shard = atoi(getarg(argc, argv, "--shard", "0").c_str());
  long n = atol(getarg(argc, argv, "--steps", "2000").c_str());
  std::string mode = getarg(argc, argv, "--mode", "random");
  g_focus = getarg(argc, argv, "--focus", "store");
  Rng r(seed, 31000 + (uint64_t)shard); R = &r;
  for (auto& s : catalogue()) if (!s.fixture) SOLS.push_back(s.name);
  // pool of 32 points: 16 in (0.1,1.9)^4, 8 in (-2,2)^4, 8 with coordinates spread over three decades 10^U(-3,0) (thin layers next to a wall / an axis)
  // and one coordinate exactly 0 in two of them; all double-representable so both precisions see the same arguments
  { int k = 0; for (auto& p : POOL) { for (auto& c : p) c = (long double)(double)(k < 16 ? r.uni(0.1L, 1.9L) : k < 24 ? r.uni(-2.0L, 2.0L) : powl(10.0L, r.uni(-3.0L, 0.0L))); if (k >= 30) p[r.below(4)] = 0; k++; }
    // eight of the generic points are copies of another pool point with exactly ONE coordinate changed (same place at another time, same x-y at another z, ...)
    for (int j = 0; j < 8; j++) { for (int c = 0; c < 4; c++) POOL[8 + j][c] = POOL[j % 4][c]; POOL[8 + j][j % 4] = (long double)(double)r.uni(0.1L, 1.9L); if (j >= 4) POOL[8 + j][3 - j % 4] = POOL[8 + j][j % 4]; } }
  if (mode == "random") run_random(n);
  else if (mode == "sweep") { sweep<double>(); sweep<long double>(); large_vectors<double>(); large_vectors<long double>(); }
  else if (mode == "mill") { mill<double>(n); mill<long double>(n); }
  else if (mode == "many") { many_handles<double>((int)n); many_handles<long double>((int)n); }
  else if (mode == "exhaustive") run_exhaustive(atoi(getarg(argc, argv, "--maxlen", "4").c_str()), shard, atoi(getarg(argc, argv, "--parts", "1").c_str()));
  else if (mode == "preinit") { if (getarg(argc, argv, "--prec", "d") == "d") preinit<double>(); else preinit<long double>(); }
  else harness_fail("unknown mode " + mode);
  LOG.count("steps", CNT.steps); LOG.count("snapshots_compared", CNT.snapshots); LOG.count("evaluations", CNT.evals); LOG.count("repeated_evaluations", CNT.repeats);
  LOG.count("fatal_paths_observed", CNT.fatal_ok); LOG.count("twin_reproductions", CNT.twin); LOG.count("checkpoints", CNT.checkpoints); LOG.count("listings_parsed", CNT.listed);
  LOG.count("display_param_parsed", CNT.display); LOG.count("radiation_evaluations_compared_with_the_sum_over_the_vectors_last_set", CNT.radiation_refs);
  flush_viol_counts();
  end_ok();
  return 0;
}
