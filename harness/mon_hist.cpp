// History monitor (C10, C11, C12, C16): drives the public API with generated operation sequences over several
// handles and both precisions and compares every observable step by step with the sequential model (model.hpp).
//   --mode random      long random histories (weights by --focus store|registry|purity|fatal)
//   --mode sweep       C11 systematic part: every name of every solution set/restored/purged
//   --mode exhaustive  C12 bounded-exhaustive: all sequences over a small alphabet, each in a forked child
//   --mode preinit     C16: every solution-dependent API function on an empty registry
#include "model.hpp"
using namespace vh;
using namespace MASA;

namespace vh {
Counters CNT;
long G_VERSION = 0;
std::vector<std::string> HISTORY;
size_t HISTORY_CAP = 400;
static std::map<std::string, long> g_vc;
static std::set<std::string> g_em;
void hist(const std::string& op) { HISTORY.push_back(op); if (HISTORY.size() > HISTORY_CAP) HISTORY.erase(HISTORY.begin(), HISTORY.begin() + (long)(HISTORY.size() - HISTORY_CAP)); set_ctx("history", op); CNT.steps++; }
std::string hist_tail(size_t n) { std::string s; size_t a = HISTORY.size() > n ? HISTORY.size() - n : 0; for (size_t i = a; i < HISTORY.size(); i++) s += (i > a ? " ; " : "") + HISTORY[i]; return s; }
void hviol(const std::string& prop, const std::string& key, const std::string& msg, const std::string& detail) {
  g_vc[prop + "|" + key]++;
  if (!g_em.insert(prop + "|" + key).second) return;
  LOG.viol(prop, key, msg, JObj().raw("detail", detail).raw("history_tail", jarrs(std::vector<std::string>(HISTORY.end() - (long)std::min<size_t>(HISTORY.size(), 25), HISTORY.end()))).num("step", CNT.steps).done());
}
void flush_viol_counts() { for (auto& kv : g_vc) LOG.stat("violcount", JObj().str("k", kv.first).num("n", kv.second).done()); }
}  // namespace vh

static Rng* R;
static std::vector<std::string> SOLS;          // catalogue without the two fixtures
static long double POOL[32][4];
static double cbK_d(double) { return 2.5; }
static long double cbK_l(long double) { return 2.5L; }
template <class S> static FP<S> cbK();
template <> FP<double> cbK<double>() { return cbK_d; }
template <> FP<long double> cbK<long double>() { return cbK_l; }
static bool g_allow_wild = true;
static std::string g_focus = "store";

static std::string rand_handle() { static const char* H[] = {"A", "B", "C", "d e", "E-1", "twin-src"}; return H[R->below(6)]; }
static std::string pick_sol() {
  // weighted towards the stateful solutions the properties name
  static const char* HOT[] = {"fans_sa_steady_wall_bounded", "sod_1d", "cp_normal", "radiation_integrated_intensity", "navierstokes_4d_compressible_powerlaw", "euler_1d", "heateq_2d_steady_const"};
  if (R->below(3) == 0) return HOT[R->below(7)];
  return SOLS[(size_t)R->below((int)SOLS.size())];
}

template <class S> static S draw_value(S def, bool wild) {
  if (wild) {
    switch (R->below(5)) {
      case 0: return (S)R->uni(-100.0L, 100.0L);
      case 1: return (S)(R->pm(1.0L, 9.0L) * 1e-30L);
      case 2: return (S)(R->pm(1.0L, 9.0L) * 1e30L);
      case 3: return S(0);
      default: return (S)R->pm(0.001L, 1000.0L);
    }
  }
  if (def == S(0) || def == marker<S>() || !(def == def)) return (S)R->pm(0.1L, 1.0L);
  return (S)((long double)def * R->uni(0.5L, 1.5L));
}

// ------------------------------------------------------------------ operations (library + model, then compare)
template <class S> struct Ops {
  Model<S>& m;
  const std::string P = ST<S>::name();
  explicit Ops(Model<S>& mm) : m(mm) {}

  void learn_after_init(const std::string& h, const std::string& sol) {
    Inst<S> in; in.sol = sol; in.version = next_version();
    Snap<S> s = observe<S>();
    in.sc = in.sc0 = s.sc; in.vec = in.vec0 = s.vec;
    auto it = m.defaults.find(sol);
    m.h[h] = in; m.sel = h; m.recent[h].clear();
    if (it == m.defaults.end()) m.defaults[sol] = in;
    else {
      // a (re-)initialised handle holds a FRESH instance with default parameters: identical to the first one ever seen
      Inst<S> keep = m.h[h];
      m.h[h].sc = it->second.sc0; m.h[h].vec = it->second.vec0;
      compare_selected(m, "C12", "init-not-default", "right after masa_init(\"" + h + "\",\"" + sol + "\") the instance does not hold the default parameters", false);
      m.h[h] = keep;
    }
  }
  void init(const std::string& h, const std::string& sol) {
    hist("masa_init<" + P + ">(\"" + h + "\",\"" + sol + "\")");
    CAP.begin(); int rc = masa_init<S>(h, sol); std::string out = CAP.end();
    if (rc != 0) hviol("C12", "init-returned-nonzero", "masa_init returned " + std::to_string(rc));
    learn_after_init(h, sol);
    compare_identity(m, "C12", "after masa_init");
  }
  void select(const std::string& h) {
    hist("masa_select_mms<" + P + ">(\"" + h + "\")");
    CAP.begin(); masa_select_mms<S>(h); CAP.end();
    m.sel = h;
    compare_identity(m, "C12", "after masa_select_mms");
    compare_selected(m, "C12", "isolation", "after selecting '" + h + "' its parameters are not the ones last set on it");
  }
  std::string pick_name(bool vec = false) {
    auto& in = m.cur();
    if (vec) { if (in.vec.empty()) return ""; auto it = in.vec.begin(); std::advance(it, R->below((int)in.vec.size())); return it->first; }
    if (in.sc.empty()) return "";
    auto it = in.sc.begin(); std::advance(it, R->below((int)in.sc.size())); return it->first;
  }
  std::string bad_name(bool vec = false) {
    std::string n = pick_name(vec);
    switch (R->below(6)) {
      case 0: { std::string s; int L = 1 + R->below(8); for (int i = 0; i < L; i++) s += "abcxyz_019"[R->below(10)]; n = s; break; }
      case 1: if (!n.empty()) n[0] = (char)toupper(n[0]); else n = "X"; if (m.cur().sc.count(n) || m.cur().vec.count(n)) n += "#"; break;
      case 2: n = n.size() > 1 ? n.substr(0, n.size() - 1) : n + "_"; break;          // proper prefix
      case 3: n = n.size() > 1 ? n.substr(1) : "_" + n; break;                          // proper suffix
      case 4: n = ""; break;
      default: n = n + " "; break;
    }
    if (m.cur().sc.count(n) || m.cur().vec.count(n)) n += "?";
    return n;
  }
  void set_param() {
    std::string n = pick_name(); if (n.empty()) return;
    auto& in = m.cur();
    bool wild = g_allow_wild && R->below(5) == 0 && !(in.sol == "sod_1d" && !kExceptions);
    S v = draw_value<S>(in.sc0[n], wild);
    hist("masa_set_param<" + P + ">(\"" + n + "\"," + jnum((long double)v) + ") on " + m.sel + ":" + in.sol);
    CAP.begin(); masa_set_param<S>(n, v); std::string out = CAP.end();
    in.sc[n] = v; in.version = next_version(); m.recent[m.sel].clear(); if (wild) in.wild = true;
    CAP.begin(); S back = masa_get_param<S>(n); CAP.end();
    if (!biteq(back, v)) hviol("C11", "set-get-roundtrip:" + in.sol, "masa_get_param(\"" + n + "\") returned " + sval(back) + " after masa_set_param(" + sval(v) + ")");
    if (!out.empty()) hviol("C11", "set-valid-printed:" + in.sol, "masa_set_param of a valid name printed: " + out.substr(0, 100));
    compare_selected(m, "C11", "set-leak", "after masa_set_param(\"" + n + "\")");
  }
  void set_invalid() {
    std::string n = bad_name();
    hist("masa_set_param<" + P + ">(\"" + n + "\",1.5) [unknown name] on " + m.sel);
    CAP.begin(); masa_set_param<S>(n, S(1.5)); std::string out = CAP.end();
    if (out.find("MASA ERROR") == std::string::npos) hviol("C11", "set-unknown-silent", "masa_set_param of unknown name '" + n + "' printed no MASA ERROR");
    CAP.begin(); S g = masa_get_param<S>(n); std::string o2 = CAP.end();
    if (!(g == S(-20))) hviol("C11", "get-unknown-not-minus-20", "masa_get_param of unknown name '" + n + "' returned " + sval(g));
    if (o2.find("MASA ERROR") == std::string::npos) hviol("C11", "get-unknown-silent", "masa_get_param of unknown name printed no MASA ERROR");
    compare_selected(m, "C11", "unknown-name-changed-state", "after set/get of unknown name '" + n + "'");
  }
  void get_param() {
    std::string n = pick_name(); if (n.empty()) return;
    hist("masa_get_param<" + P + ">(\"" + n + "\") on " + m.sel);
    CAP.begin(); S g = masa_get_param<S>(n); CAP.end();
    if (!biteq(g, m.cur().sc[n])) hviol("C11", "get-mismatch:" + m.cur().sol + ":" + n, "masa_get_param(\"" + n + "\") = " + sval(g) + ", model " + sval(m.cur().sc[n]));
  }
  void init_param() {
    auto& in = m.cur();
    hist("masa_init_param<" + P + ">() on " + m.sel + ":" + in.sol);
    CAP.begin(); int rc = masa_init_param<S>(); CAP.end();
    if (rc != 0) hviol("C11", "init_param-status:" + in.sol, "masa_init_param returned " + std::to_string(rc));
    in.sc = in.sc0; in.vec = in.vec0; in.version = next_version(); in.wild = false; m.recent[m.sel].clear();
    compare_selected(m, "C11", "init_param-restore", "after masa_init_param");
  }
  void purge() {
    auto& in = m.cur();
    if (in.sol == "sod_1d" && !kExceptions) return;   // a purged Sod can call exit(); the exit() build keeps it sane
    hist("masa_purge_default_param<" + P + ">() on " + m.sel + ":" + in.sol);
    CAP.begin(); masa_purge_default_param<S>(); CAP.end();
    for (auto& kv : in.sc) kv.second = marker<S>();
    in.version = next_version(); in.wild = true; m.recent[m.sel].clear();
    compare_selected(m, "C11", "purge", "after masa_purge_default_param");
  }
  void sanity() {
    auto& in = m.cur();
    int want = 0;
    for (auto& kv : in.sc) if (kv.second == marker<S>()) want = 1;
    for (auto& kv : in.vec) if (kv.second.empty()) want = 1;
    hist("masa_sanity_check<" + P + ">() on " + m.sel + ":" + in.sol);
    CAP.begin(); int rc = masa_sanity_check<S>(); CAP.end();
    if ((rc == 0) != (want == 0)) hviol("C11", "sanity_check-status:" + in.sol, "masa_sanity_check returned " + std::to_string(rc) + ", model expects " + (want ? "non-zero" : "0"));
    compare_selected(m, "C11", "sanity-changed-state", "after masa_sanity_check");
  }
  void set_vec() {
    auto& in = m.cur();
    std::string n = pick_name(true);
    bool invalid = n.empty() || R->below(6) == 0;
    if (invalid) {
      n = bad_name(true);
      std::vector<S> v(3, S(1));
      hist("masa_set_vec<" + P + ">(\"" + n + "\",len 3) [unknown name] on " + m.sel);
      CAP.begin(); masa_set_vec<S>(n, v); std::string out = CAP.end();
      if (out.find("MASA ERROR") == std::string::npos) hviol("C11", "set_vec-unknown-silent", "masa_set_vec of unknown name printed no MASA ERROR");
      std::vector<S> g(2, S(7)); CAP.begin(); int rc = masa_get_vec<S>(n, g); CAP.end();
      if (rc == 0) hviol("C11", "get_vec-unknown-status", "masa_get_vec of unknown name '" + n + "' returned 0");
      compare_selected(m, "C11", "unknown-vector-changed-state", "after set_vec/get_vec of unknown name");
      return;
    }
    static const int LENS[] = {0, 1, 2, 3, 5, 8, 13, 25, 40, 64};
    int len = R->coin() ? LENS[R->below(10)] : R->below(65);
    if (!kExceptions && in.sol == "sod_1d") return;
    std::vector<S> v((size_t)len);
    for (auto& x : v) x = (S)R->uni(-3.0L, 3.0L);
    hist("masa_set_vec<" + P + ">(\"" + n + "\",len " + std::to_string(len) + ") on " + m.sel + ":" + in.sol);
    CAP.begin(); masa_set_vec<S>(n, v); CAP.end();
    in.vec[n] = v; in.version = next_version(); m.recent[m.sel].clear();
    std::vector<S> g(1, S(99)); CAP.begin(); int rc = masa_get_vec<S>(n, g); CAP.end();
    bool same = rc == 0 && g.size() == v.size();
    if (same) for (size_t i = 0; i < v.size(); i++) if (!biteq(g[i], v[i])) same = false;
    if (!same) hviol("C11", "vec-roundtrip:" + in.sol + ":" + n, "masa_get_vec after masa_set_vec(len " + std::to_string(len) + ") returned status " + std::to_string(rc) + " length " + std::to_string(g.size()));
    compare_selected(m, "C11", "set_vec-leak", "after masa_set_vec(\"" + n + "\")");
  }
  void display() {
    auto& in = m.cur();
    hist("masa_display_param<" + P + ">() on " + m.sel);
    CAP.begin(); masa_display_param<S>(); std::string out = CAP.end();
    CNT.display++;
    for (auto& l : split(out, '\n')) {
      size_t p = l.find(" is set to: ");
      if (p == std::string::npos) continue;
      std::string n = l.substr(0, p), v = l.substr(p + 12);
      auto it = in.sc.find(n);
      if (it == in.sc.end()) { hviol("C11", "display-unknown-name:" + in.sol, "masa_display_param shows '" + n + "' unknown to the model"); continue; }
      bool un = v == "Uninitialized";
      if (un != (it->second == marker<S>())) hviol("C11", "display-uninitialized-flag:" + in.sol, "masa_display_param shows '" + l + "' but the value is " + sval(it->second));
    }
  }
  // ---- evaluation (C10): result is a pure function of (instance parameters, arguments)
  std::string eval_bits(const Ev& e, const long double* a, int idx, std::string* outp = nullptr) {
    S as[4]; for (int i = 0; i < 4; i++) as[i] = (S)a[i];
    std::string b;
    Outcome o = guarded([&] { S r = call_ev<S>(e, as, idx, cbK<S>()); b = bits(r); }, false);
    if (o.fatal) b = "FATAL" + std::to_string(o.code);
    if (o.abnormal) b = "ABNORMAL";
    if (outp) *outp = o.out;
    return b;
  }
  void eval() {
    auto& in = m.cur();
    const SolSpec* sp = find_sol(in.sol);
    if (!sp) return;
    if (!kExceptions && in.sol == "sod_1d" && in.wild) return;
    // mostly provided evaluators, sometimes any overload of the API
    int ei;
    if (!sp->prov.empty() && R->below(5) != 0) { auto it = sp->prov.begin(); std::advance(it, R->below((int)sp->prov.size())); ei = ev_index(*it); }
    else ei = R->below((int)api().size());
    const long double* a = POOL[R->below(32)];
    int idx = -999;
    // half of the time: repeat a call already made on these parameters (after arbitrary other calls in between)
    auto& rc = m.recent[m.sel];
    if (!rc.empty() && R->coin()) { const EvalRec& r0 = rc[(size_t)R->below((int)rc.size())]; ei = r0.ev; idx = r0.idx; for (auto& pp : POOL) if (pp[0] == r0.a[0] && pp[1] == r0.a[1] && pp[2] == r0.a[2] && pp[3] == r0.a[3]) a = pp; }
    const Ev& e = api()[ei];
    if (idx == -999) idx = (e.kind == KI) ? 1 + R->below(std::max(1, e.n >= 4 ? 3 : e.n)) : (e.kind == KK ? R->below(7) : 0);
    hist("masa_eval_" + e.id + "<" + P + ">(pool point, idx " + std::to_string(idx) + ") on " + m.sel + ":" + in.sol);
    std::string b = eval_bits(e, a, idx);
    CNT.evals++;
    std::string key = P + "|" + m.sel + "|" + std::to_string(in.version) + "|" + e.id + "|" + std::to_string((int)(a - POOL[0]) / 4) + "|" + std::to_string(idx);
    auto it = seen.find(key);
    if (it == seen.end()) { seen[key] = b; LOG_distinct_keys++; }
    else {
      CNT.repeats++;
      if (it->second != b)
        hviol("C10", "evaluation-not-repeatable:" + in.sol + ":" + e.id, "the same call on the same parameters returned " + b + " now and " + it->second + " earlier in this history",
              JObj().str("solution", in.sol).str("evaluator", e.id).str("now_bits", b).str("earlier_bits", it->second).done());
    }
    m.recent[m.sel].push_back(EvalRec{ei, {a[0], a[1], a[2], a[3]}, idx, b});
    if (m.recent[m.sel].size() > 24) m.recent[m.sel].erase(m.recent[m.sel].begin());
    // evaluating never changes a parameter
    compare_selected(m, "C10", "evaluator-wrote-parameter:" + e.id, "after masa_eval_" + e.id);
  }
  // twin-handle reproduction: a fresh instance given the same parameters reproduces the logged bits
  void twin() {
    if (m.sel.empty()) return;
    std::string src = m.sel;
    Inst<S> in = m.cur();
    std::vector<EvalRec> recs = m.recent[src];
    if (recs.empty()) return;
    if (!kExceptions && in.sol == "sod_1d" && in.wild) return;
    init("twin", in.sol);
    hist("copy parameters of '" + src + "' onto 'twin'");
    for (auto& kv : in.sc) { CAP.begin(); masa_set_param<S>(kv.first, kv.second); CAP.end(); m.cur().sc[kv.first] = kv.second; }
    for (auto& kv : in.vec) { std::vector<S> v = kv.second; CAP.begin(); masa_set_vec<S>(kv.first, v); CAP.end(); m.cur().vec[kv.first] = v; }
    m.cur().version = next_version(); m.cur().wild = in.wild;
    compare_selected(m, "C11", "twin-copy", "after copying all parameters onto a fresh handle");
    for (auto& r : recs) {
      const Ev& e = api()[r.ev];
      std::string b = eval_bits(e, r.a, r.idx);
      CNT.twin++;
      if (b != r.bits)
        hviol("C10", "evaluation-depends-on-history:" + in.sol + ":" + e.id, "a fresh handle with identical parameters returned " + b + " where handle '" + src + "' returned " + r.bits,
              JObj().str("solution", in.sol).str("evaluator", e.id).str("fresh_bits", b).str("history_bits", r.bits).done());
      Snap<S> s = observe<S>();   // keep the twin in step with the model even if an evaluator wrote a parameter (reported elsewhere)
      m.cur().sc = s.sc; m.cur().vec = s.vec;
    }
    select(src);
  }
  // ---- fatal paths (C16) in the middle of a session
  void fatal_op() {
    int kind = R->below(3);
    std::string what;
    std::function<void()> f;
    std::string uh = "no-such-handle-" + std::to_string(R->below(1000));
    if (kind == 0) { what = "masa_select_mms<" + P + ">(\"" + uh + "\") [unknown handle]"; f = [uh] { masa_select_mms<S>(uh); }; }
    else if (kind == 1) { std::string h = rand_handle(); what = "masa_init<" + P + ">(\"" + h + "\",\"no_such_solution\") [unknown solution]"; f = [h] { masa_init<S>(h, "no_such_solution"); }; }
    else { std::string h = "fresh-" + std::to_string(R->below(1000)); what = "masa_init<" + P + ">(\"" + h + "\",\"euler_1d_\") [unknown solution, new handle]"; f = [h] { masa_init<S>(h, "euler_1d_"); }; }
    hist(what);
    Outcome o = guarded(f, true);
    if (!o.fatal || o.abnormal) { hviol("C16", "misuse-not-fatal", what + " did not end in a fatal error" + (o.abnormal ? " (" + o.what + ")" : "")); }
    else {
      if (o.code != 1) hviol("C16", "fatal-code-not-1", what + " reported code " + std::to_string(o.code));
      if (o.out.find("MASA FATAL ERROR") == std::string::npos) hviol("C16", "fatal-without-message", what + " printed no 'MASA FATAL ERROR': " + o.out.substr(0, 80));
      CNT.fatal_ok++;
    }
    // state exactly as before, library still usable (in the exit() build the failing call ran in a child: the parent must be untouched too)
    if (!m.sel.empty()) {
      compare_identity(m, "C16", "after a caught fatal error");
      compare_selected(m, "C16", "state-changed-by-failed-call", "after a caught fatal error");
    }
  }
  void checkpoint() {
    if (m.sel.empty()) return;
    std::string keep = m.sel;
    hist("checkpoint<" + P + ">: visit every handle");
    for (auto& kv : m.h) {
      CAP.begin(); masa_select_mms<S>(kv.first); CAP.end();
      m.sel = kv.first;
      compare_selected(m, "C12", "isolation", "checkpoint: handle '" + kv.first + "'");
    }
    CAP.begin(); masa_select_mms<S>(keep); CAP.end();
    m.sel = keep;
    compare_identity(m, "C12", "checkpoint");
    CNT.checkpoints++;
  }
  std::map<std::string, std::string> seen;
  long LOG_distinct_keys = 0;
};

// ------------------------------------------------------------------ random histories
template <class S> static void random_step(Ops<S>& o) {
  Model<S>& m = o.m;
  if (m.sel.empty()) { o.init(rand_handle(), pick_sol()); return; }
  // focus-specific weights
  int Winit = 6, Wsel = 10, Wset = 20, Wbad = 5, Wget = 6, Wip = 4, Wpurge = 2, Wsan = 5, Wvec = 8, Wdisp = 2, Weval = 20, Wtwin = 2, Wfatal = 4, Wchk = 2;
  if (g_focus == "registry") { Winit = 14; Wsel = 24; Wset = 18; Weval = 8; Wvec = 3; Wbad = 2; Wchk = 5; Wfatal = 2; }
  if (g_focus == "purity") { Weval = 45; Wset = 10; Wtwin = 5; Wsel = 12; Wvec = 6; Wbad = 1; Wfatal = 1; Wdisp = 1; }
  if (g_focus == "fatal") { Wfatal = 25; Weval = 8; }
  int w = R->below(Winit + Wsel + Wset + Wbad + Wget + Wip + Wpurge + Wsan + Wvec + Wdisp + Weval + Wtwin + Wfatal + Wchk);
  int acc = 0;
  auto hit = [&](int wt) { acc += wt; return w < acc; };
  if (hit(Winit)) {
    // includes re-initialisation of a live handle and two handles of one type
    std::string h = rand_handle();
    std::string sol = (R->below(4) == 0 && !m.h.empty()) ? m.h.begin()->second.sol : pick_sol();
    o.init(h, sol);
  } else if (hit(Wsel)) { auto it = m.h.begin(); std::advance(it, R->below((int)m.h.size())); o.select(it->first); }
  else if (hit(Wset)) o.set_param();
  else if (hit(Wbad)) o.set_invalid();
  else if (hit(Wget)) o.get_param();
  else if (hit(Wip)) o.init_param();
  else if (hit(Wpurge)) o.purge();
  else if (hit(Wsan)) o.sanity();
  else if (hit(Wvec)) o.set_vec();
  else if (hit(Wdisp)) o.display();
  else if (hit(Weval)) o.eval();
  else if (hit(Wtwin)) o.twin();
  else if (hit(Wfatal)) o.fatal_op();
  else o.checkpoint();
}

static void run_random(long nsteps) {
  Model<double> md; Model<long double> ml;
  Ops<double> od(md); Ops<long double> ol(ml);
  for (long i = 0; i < nsteps; i++) {
    // ops on one precision never change any observation on the other: both models are checked at checkpoints
    if (R->below(3) == 0) random_step(ol); else random_step(od);
    if (i % 200 == 199) { od.checkpoint(); ol.checkpoint(); }
  }
  od.checkpoint(); ol.checkpoint();
  LOG.count("distinct_evaluation_keys", od.LOG_distinct_keys + ol.LOG_distinct_keys);
  std::set<std::string> sols;
  for (auto& kv : md.defaults) sols.insert(kv.first);
  for (auto& kv : ml.defaults) sols.insert(kv.first);
  for (auto& s : sols) LOG.distinct("solutions_initialised", s);
  LOG.sample(JObj().str("kind", "random history (last operations)").raw("ops", jarrs(std::vector<std::string>(HISTORY.end() - (long)std::min<size_t>(HISTORY.size(), 14), HISTORY.end()))).done());
}

// ------------------------------------------------------------------ C11 systematic sweep
template <class S> static void sweep() {
  Model<S> m; Ops<S> o(m);
  long names = 0;
  for (auto& sol : SOLS) {
    o.init("sweep", sol);
    auto& in = m.cur();
    std::vector<std::string> ns; for (auto& kv : in.sc) ns.push_back(kv.first);
    int k = 0;
    for (auto& n : ns) {
      S v = (S)(1000.0L + 3.0L * (k++) + R->uni(0.0L, 1.0L));   // a value no other parameter holds
      hist("sweep: masa_set_param<" + o.P + ">(\"" + n + "\") on " + sol);
      CAP.begin(); masa_set_param<S>(n, v); CAP.end();
      in.sc[n] = v; in.version = next_version();
      compare_selected(m, "C11", "set-leak", "sweep: after setting only '" + n + "'");
      names++;
    }
    o.sanity();
    o.init_param();      // restores every parameter (all ~205 power-law parameters)
    o.sanity();
    if (sol != "sod_1d" || kExceptions) { o.purge(); o.sanity(); o.display(); o.init_param(); }
    LOG.distinct("solutions_initialised", sol);
  }
  LOG.count("sweep_names", names);
}

// ------------------------------------------------------------------ C12 bounded-exhaustive
// alphabet over two handles A,B, two solution types, one parameter of each type, two values
struct Sym { const char* name; };
static const int NSYM = 12;
static const char* SYMS[NSYM] = {"init(A,s1)", "init(B,s1)", "init(B,s2)", "init(A,s2)", "select(A)", "select(B)", "set(p,v1)", "set(p,v2)", "get(p)", "name", "dim", "list"};
static const char* S1 = "euler_1d";
static const char* S2 = "heateq_2d_steady_const";

template <class S> static bool exec_sequence(const std::vector<int>& seq, std::set<std::string>* states) {
  // returns false if the sequence is illegal in the model (skipped); runs in a forked child from the empty registry
  Model<S> m; Ops<S> o(m);
  for (int s : seq) {
    switch (s) {
      case 0: o.init("A", S1); break;
      case 1: o.init("B", S1); break;
      case 2: o.init("B", S2); break;
      case 3: o.init("A", S2); break;
      case 4: case 5: { std::string h = s == 4 ? "A" : "B"; if (!m.h.count(h)) return false; o.select(h); break; }
      case 6: case 7: {
        if (m.sel.empty()) return false;
        std::string n = m.cur().sol == S1 ? "u_x" : "A_x";
        S v = s == 6 ? S(1.25) : S(-7.5);
        hist(std::string("masa_set_param(\"") + n + "\"," + (s == 6 ? "1.25" : "-7.5") + ") on " + m.sel);
        CAP.begin(); masa_set_param<S>(n, v); CAP.end();
        m.cur().sc[n] = v; m.cur().version = next_version();
        compare_selected(m, "C12", "isolation", "after set on '" + m.sel + "'");
        break;
      }
      case 8: { if (m.sel.empty()) return false; std::string n = m.cur().sol == S1 ? "u_x" : "A_x"; hist("masa_get_param(\"" + n + "\")"); CAP.begin(); S g = masa_get_param<S>(n); CAP.end();
        if (!biteq(g, m.cur().sc[n])) hviol("C12", "isolation:get", "get_param(\"" + n + "\") on '" + m.sel + "' returned " + sval(g) + ", model " + sval(m.cur().sc[n])); break; }
      case 9: case 10: case 11: if (m.sel.empty()) return false; hist(SYMS[s]); compare_identity(m, "C12", std::string("exhaustive ") + SYMS[s]); break;
    }
  }
  // final full check of every handle
  if (!m.sel.empty()) o.checkpoint();
  if (states) {
    std::string st = "sel=" + m.sel;
    for (auto& kv : m.h) { st += ";" + kv.first + ":" + kv.second.sol; for (auto& p : kv.second.sc) if (p.first == "u_x" || p.first == "A_x") st += "=" + bits(p.second); }
    states->insert(st);
  }
  return true;
}

static void run_exhaustive(int maxlen, int part, int nparts) {
  // enumerate all sequences starting with an init; each executed in a forked child (pristine global state)
  long total = 0, legal = 0;
  std::set<std::string> states;
  for (int len = 1; len <= maxlen; len++) {
    std::vector<int> seq((size_t)len, 0);
    long count = 1; for (int i = 0; i < len; i++) count *= NSYM;
    for (long c = 0; c < count; c++) {
      long x = c; for (int i = len - 1; i >= 0; i--) { seq[(size_t)i] = (int)(x % NSYM); x /= NSYM; }
      if (seq[0] > 3) continue;                // must start with an init
      if ((c % nparts) != part) continue;
      total++;
      // model legality + state signature are computed in the child and reported through the event log
      bool prec_l = (c / nparts) % 2 == 1;
      CAP.begin();
      fflush(nullptr);
      pid_t pid = fork();
      if (pid == 0) {
        child_mode();
        HISTORY.clear();
        std::set<std::string> st;
        bool ok = prec_l ? exec_sequence<long double>(seq, &st) : exec_sequence<double>(seq, &st);
        if (ok) { LOG.count("exhaustive_sequences_executed", 1); for (auto& s : st) LOG.distinct("exhaustive_model_states", s); }
        fflush(nullptr);
        _exit(ok ? 0 : 3);
      }
      int stt = 0; waitpid(pid, &stt, 0);
      CAP.end();
      if (WIFSIGNALED(stt) || (WEXITSTATUS(stt) != 0 && WEXITSTATUS(stt) != 3)) {
        std::string s; for (int v : seq) s += std::string(SYMS[v]) + " ";
        hviol("C12", "exhaustive-sequence-crashed", "sequence terminated abnormally: " + s);
      } else if (WEXITSTATUS(stt) == 0) legal++;
      if (total % 4000 == 1) { std::string s; for (int v : seq) s += std::string(SYMS[v]) + " "; LOG.sample(JObj().str("kind", "exhaustive sequence").str("ops", s).done()); }
    }
  }
  LOG.count("exhaustive_sequences_enumerated", total);
}

// ------------------------------------------------------------------ C16 pre-init: every solution-dependent function on an empty registry
template <class S> static void preinit() {
  const std::string P = ST<S>::name();
  struct F { std::string name; std::function<void()> f; };
  std::vector<F> fs;
  static S a[4] = {S(0.3), S(0.4), S(0.5), S(0.6)};
  for (auto& e : api()) { const Ev* ep = &e; fs.push_back({"masa_eval_" + e.id, [ep] { call_ev<S>(*ep, a, 1, cbK<S>()); }}); }
  fs.push_back({"masa_set_param", [] { masa_set_param<S>("x", S(1)); }});
  fs.push_back({"masa_get_param", [] { masa_get_param<S>("x"); }});
  fs.push_back({"masa_init_param", [] { masa_init_param<S>(); }});
  fs.push_back({"masa_purge_default_param", [] { masa_purge_default_param<S>(); }});
  fs.push_back({"masa_sanity_check", [] { masa_sanity_check<S>(); }});
  fs.push_back({"masa_display_param", [] { masa_display_param<S>(); }});
  fs.push_back({"masa_display_vec", [] { masa_display_vec<S>(); }});
  fs.push_back({"masa_get_name", [] { std::string s; masa_get_name<S>(&s); }});
  fs.push_back({"masa_get_dimension", [] { int d; masa_get_dimension<S>(&d); }});
  fs.push_back({"masa_set_vec", [] { std::vector<S> v(2); masa_set_vec<S>("v", v); }});
  fs.push_back({"masa_get_vec", [] { std::vector<S> v; masa_get_vec<S>("v", v); }});
  fs.push_back({"masa_test_poly", [] { masa_test_poly<S>(); }});
  fs.push_back({"pass_func", [] { pass_func<S>(cbK<S>(), S(1)); }});
  fs.push_back({"masa_select_mms(unknown)", [] { masa_select_mms<S>("nobody"); }});
  fs.push_back({"masa_init(h,unknown)", [] { masa_init<S>("h", "not_a_solution"); }});
  for (auto& f : fs) {
    hist(f.name + "<" + P + "> on an empty registry");
    Outcome o = guarded(f.f, true);
    LOG.distinct("preinit_functions", f.name + "<" + P + ">");
    if (o.abnormal) { hviol("C16", "preinit-abnormal:" + f.name, f.name + " before masa_init: " + o.what); continue; }
    if (!o.fatal) { hviol("C16", "preinit-not-fatal:" + f.name, f.name + " before masa_init did not abort"); continue; }
    if (o.code != 1) hviol("C16", "preinit-code:" + f.name, f.name + " before masa_init ended with code " + std::to_string(o.code));
    if (o.out.find("MASA FATAL ERROR") == std::string::npos) hviol("C16", "preinit-no-message:" + f.name, f.name + " before masa_init printed no 'MASA FATAL ERROR'");
    CNT.fatal_ok++;
    if (kExceptions) {
      // still empty, still usable
      if (masa_verif_registry_size<S>() != 0 || masa_verif_selected_handle<S>() != "") hviol("C16", "preinit-changed-registry:" + f.name, f.name + " on an empty registry left something registered");
    }
  }
  if (kExceptions) {
    // "remains usable": a normal session works after all those failures
    Model<S> m; Ops<S> o(m);
    o.init("after", "euler_1d"); o.set_param(); o.eval(); o.checkpoint();
  }
}

int main(int argc, char** argv) {
  LOG.open(getarg(argc, argv, "--out"));
  CAP.install();
  install_crash_handlers();
  uint64_t seed = strtoull(getarg(argc, argv, "--seed", "1").c_str(), 0, 10);
  int shard = atoi(getarg(argc, argv, "--shard", "0").c_str());
  long n = atol(getarg(argc, argv, "--steps", "2000").c_str());
  std::string mode = getarg(argc, argv, "--mode", "random");
  g_focus = getarg(argc, argv, "--focus", "store");
  Rng r(seed, 31000 + (uint64_t)shard); R = &r;
  for (auto& s : catalogue()) if (!s.fixture) SOLS.push_back(s.name);
  for (auto& p : POOL) for (auto& c : p) c = (long double)(double)r.uni(0.1L, 1.9L);
  if (mode == "random") run_random(n);
  else if (mode == "sweep") { sweep<double>(); sweep<long double>(); }
  else if (mode == "exhaustive") run_exhaustive(atoi(getarg(argc, argv, "--maxlen", "4").c_str()), shard, atoi(getarg(argc, argv, "--parts", "1").c_str()));
  else if (mode == "preinit") { if (getarg(argc, argv, "--prec", "d") == "d") preinit<double>(); else preinit<long double>(); }
  else harness_fail("unknown mode " + mode);
  LOG.count("steps", CNT.steps); LOG.count("snapshots_compared", CNT.snapshots); LOG.count("evaluations", CNT.evals); LOG.count("repeated_evaluations", CNT.repeats);
  LOG.count("fatal_paths_observed", CNT.fatal_ok); LOG.count("twin_reproductions", CNT.twin); LOG.count("checkpoints", CNT.checkpoints); LOG.count("listings_parsed", CNT.listed);
  LOG.count("display_param_parsed", CNT.display);
  flush_viol_counts();
  end_ok();
  return 0;
}
