#include "model.hpp"

namespace vh {
Counters CNT;
long G_VERSION = 0;
std::vector<std::string> HISTORY;
size_t HISTORY_CAP = 400;
static std::map<std::string, long> g_vc;
static std::set<std::string> g_em;
void hist(const std::string& op) { HISTORY.push_back(op); if (HISTORY.size() > HISTORY_CAP) HISTORY.erase(HISTORY.begin(), HISTORY.begin() + (long)(HISTORY.size() - HISTORY_CAP)); set_ctx("history", op); CNT.steps++; }
std::string hist_tail(size_t n) { std::string s; size_t a = HISTORY.size() > n ? HISTORY.size() - n : 0; for (size_t i = a; i < HISTORY.size(); i++) s += (i > a ? " ; " : "") + HISTORY[i]; return s; }
void hviol(const std::string& prop, const std::string& key, const std::string& msg, const std::string& detail) {
  g_vc[prop + "|" + key]++;
  if (!g_em.insert(prop + "|" + key).second) return;
  LOG.viol(prop, key, msg, JObj().raw("detail", detail).raw("history_tail", jarrs(std::vector<std::string>(HISTORY.end() - (long)std::min<size_t>(HISTORY.size(), 25), HISTORY.end()))).num("step", CNT.steps).done());
}
void flush_viol_counts() { for (auto& kv : g_vc) LOG.stat("violcount", JObj().str("k", kv.first).num("n", kv.second).done()); }
}  // namespace vh
