// C08 monitor: closed-form exact solutions - sod_1d against an exact Riemann solver in quad precision plus
// reference-free jump/isentropic invariants on the library's own outputs; cp_normal against the conjugate-normal
// closed forms plus reference-free quadrature / proportionality / log monitors, over data-vector histories.
#include "common.hpp"
#include <cerrno>
#include <quadmath.h>
using namespace vh;
using namespace MASA;
typedef __float128 Q;

static std::string PROP = "C08";   // --prop C09: the same monitor reporting for the accuracy property
static std::set<std::string> g_emitted;
static std::map<std::string, long> g_vc;
static void viol_once(const std::string& key, const std::string& msg, const std::string& det) {
  g_vc[key]++;
  if (g_emitted.insert(key).second) LOG.viol(PROP, key, msg, det);
}
static std::map<std::string, double> g_max;
static void note(const std::string& k, double r) { double& m = g_max[k]; if (r > m) m = r; }
template <class S> static double U() { return sizeof(S) == 8 ? 0x1p-53 : 0x1p-64; }
static long double LD(Q x) { return (long double)x; }

// ------------------------------------------------------------------------------------------ Sod
struct Riemann { Q G, mu, cl, cr, ps, us, rsl, rsr, S, head, tail; };
static const Q pl = 1, pr = 0.125Q, rl = 1, rr = 0.125Q;
static Riemann solve(Q G) {
  Riemann r; r.G = G; r.mu = (G - 1) / (G + 1);
  r.cl = sqrtq(G * pl / rl); r.cr = sqrtq(G * pr / rr);
  // Toro: f(p) = f_L (rarefaction) + f_R (shock) + (u_R - u_L) = 0, pr < p < pl for Sod's states
  Q AR = 2 / ((G + 1) * rr), BR = r.mu * pr;
  auto f = [&](Q p) { return 2 * r.cl / (G - 1) * (powq(p / pl, (G - 1) / (2 * G)) - 1) + (p - pr) * sqrtq(AR / (p + BR)); };
  Q lo = pr, hi = pl;
  for (int i = 0; i < 140; i++) { Q mid = (lo + hi) / 2; if (f(mid) > 0) hi = mid; else lo = mid; }
  r.ps = (lo + hi) / 2;
  r.us = -2 * r.cl / (G - 1) * (powq(r.ps / pl, (G - 1) / (2 * G)) - 1);
  r.rsl = rl * powq(r.ps / pl, 1 / G);
  r.rsr = rr * ((r.ps / pr + r.mu) / (r.mu * r.ps / pr + 1));
  r.S = r.cr * sqrtq((G + 1) / (2 * G) * r.ps / pr + (G - 1) / (2 * G));
  r.head = -r.cl;
  Q csl = r.cl * powq(r.ps / pl, (G - 1) / (2 * G));
  r.tail = r.us - csl;
  return r;
}
// region: 0 left, 1 fan, 2 star-left, 3 star-right, 4 right; returns false if xi is within rel of a front
static bool sample(const Riemann& r, Q xi, Q& rho, Q& u, int& region, double rel = 1e-6) {
  Q fronts[4] = {r.head, r.tail, r.us, r.S};
  for (Q f : fronts) if (fabsq(xi - f) <= rel * (fabsq(f) + r.cl)) return false;
  if (xi < r.head) { rho = rl; u = 0; region = 0; }
  else if (xi < r.tail) { u = 2 / (r.G + 1) * (r.cl + xi); Q c = r.cl - (r.G - 1) / 2 * u; rho = rl * powq(c / r.cl, 2 / (r.G - 1)); region = 1; }
  else if (xi < r.us) { rho = r.rsl; u = r.us; region = 2; }
  else if (xi < r.S) { rho = r.rsr; u = r.us; region = 3; }
  else { rho = rr; u = 0; region = 4; }
  return true;
}

template <class S>
static void run_sod(Rng& rng, long ncases) {
  const std::string P = ST<S>::name();
  const double u = U<S>();
  masa_init<S>("sod", "sod_1d");
  long ncmp = 0, ninv = 0, nloc = 0;
  for (long cs = 0; cs < ncases; cs++) {
    // a third of the cases near Gamma = 1, where the wave pattern changes qualitatively (the fan tail crosses x = 0 at Gamma = 1.1148)
    // ... and one case in eight with a large ratio of specific heats (3..12): "for all Gamma > 1"
    int gk = rng.below(8);
    S G = (gk < 3) ? (S)rng.uni(1.02L, 1.2L) : (gk == 3) ? (S)rng.uni(3.0L, 12.0L) : (S)rng.uni(1.05L, 3.0L);
    masa_set_param<S>("Gamma", G);
    masa_set_param<S>("mu", (G - 1) / (G + 1));
    // histories: the coverage-only one-argument evaluator of this class (a bisection with its own accuracy / iteration cap) before one case in four;
    // errno as an unrelated libm call may have left it
    if (rng.below(4) == 0) { CAP.begin(); (void)masa_eval_source_t<S>((S)rng.uni(-1.0L, 1.0L)); CAP.end(); LOG.count("sod_cases_after_the_one_argument_stub", 1); }
    { static const int EN[] = {0, EDOM, ERANGE, 0}; errno = EN[rng.below(4)]; }   // the property speaks of the solution for the current Gamma: mu kept consistent
    Riemann r = solve((Q)G);
    LOG.count("sod_gammas", 1);
    // times over five decades (the solution is self-similar: only x/t matters), one case in four
    S t = (rng.below(4) == 0) ? (S)powl(10.0L, rng.uni(-3.0L, 2.0L)) : (S)rng.uni(0.05L, 3.0L);
    // one point per region (+ extra random ones), library values kept for the reference-free invariants
    long double lrho[5], lm[5]; Q xis[5]; bool have[5] = {false, false, false, false, false};
    // 10 regular samples (two per region) + structured ones: both sides of every wave front at relative distances 1e-3 and 1e-2,
    // and x/t = 0, +-1e-3 c_l, +-1e-2 c_l (the origin is where a sign slip in a wave speed shows)
    std::vector<Q> special;
    {
      Q fr[4] = {r.head, r.tail, r.us, r.S};
      for (Q f : fr) for (Q dl : {(Q)1e-3Q, (Q)1e-2Q}) { special.push_back(f - dl * (fabsq(f) + r.cl)); special.push_back(f + dl * (fabsq(f) + r.cl)); }
      for (Q z : {(Q)0, (Q)1e-3Q, (Q)-1e-3Q, (Q)1e-2Q, (Q)-1e-2Q}) special.push_back(z * r.cl);
    }
    for (int k = 0; k < 10 + (int)special.size(); k++) {
      int reg = k % 5;
      Q xi;
      long double th = rng.uni(0.03L, 0.97L);
      if (k >= 10) xi = special[(size_t)(k - 10)];
      else if (reg == 0) xi = r.head - (Q)rng.uni(0.01L, 2.0L);
      else if (reg == 1) xi = r.head + (Q)th * (r.tail - r.head);
      else if (reg == 2) xi = r.tail + (Q)th * (r.us - r.tail);
      else if (reg == 3) xi = r.us + (Q)th * (r.S - r.us);
      else xi = r.S + (Q)rng.uni(0.01L, 2.0L);
      S x = (S)(LD(xi) * (long double)t);
      Q xi2 = (Q)x / (Q)t;
      Q rho, vel; int region;
      if (!sample(r, xi2, rho, vel, region)) { LOG.count("sod_skipped_near_front", 1); continue; }
      set_ctx("sod:" + P, "sod_1d Gamma=" + jnum((long double)G) + " x=" + jnum((long double)x) + " t=" + jnum((long double)t));
      if (rng.below(8) == 0) errno = rng.coin() ? EDOM : ERANGE;
      CAP.begin();
      S lr = masa_eval_source_rho<S>(x, t), lmom = masa_eval_source_rho_u<S>(x, t);
      std::string out = CAP.end();
      ncmp += 2;
      static const char* RN[5] = {"left-state", "rarefaction-fan", "star-left", "star-right", "right-state"};
      auto det = [&](const char* what, long double lib, Q ref) {
        return JObj().str("precision", P).num("Gamma", (long double)G).num("x", (long double)x).num("t", (long double)t).num("x_over_t", LD(xi2)).str("region", RN[region])
            .str("quantity", what).num("library", lib).num("exact", LD(ref)).num("p_star_exact", LD(r.ps)).num("u_star_exact", LD(r.us)).num("shock_speed_exact", LD(r.S)).str("stdout", out.substr(0, 120)).done();
      };
      double e1 = (double)fabsq((Q)lr - rho) / (u * (double)fabsq(rho));
      Q mref = rho * vel;
      double sc2 = (double)fabsq(mref) + (double)(rho * r.cl) * 1e-3;
      double e2 = (double)fabsq((Q)lmom - mref) / (u * (sc2 > 0 ? sc2 : 1));
      // semantic bound 2^20 u; accuracy bound 2^14 u (the star state comes out of a bisection that runs to |f| < 5 eps: soak maxima after the
      // rtbis repair are 680 u in the fan and 51 u in the star region - an iteration that stops early shows as 1e4..1e6 u)
      const double SOD_ACC = 16384.0;
      if (!std::isfinite((long double)lr) || e1 > 1048576.0) viol_once(std::string("sod:density:") + RN[region], "density differs from the exact Riemann solution", det("rho", (long double)lr, rho));
      else if (e1 > SOD_ACC) viol_once(std::string("sod:density-accuracy:") + RN[region], "density agrees with the exact Riemann solution only to " + std::to_string(e1) + " u", det("rho", (long double)lr, rho));
      else note(std::string("sod|rho|") + RN[region] + "|" + (sizeof(S) == 8 ? "d" : "l"), e1);
      if (!std::isfinite((long double)lmom) || e2 > 1048576.0) viol_once(std::string("sod:momentum:") + RN[region], "momentum differs from the exact Riemann solution", det("rho*u", (long double)lmom, mref));
      else if (e2 > SOD_ACC) viol_once(std::string("sod:momentum-accuracy:") + RN[region], "momentum agrees with the exact Riemann solution only to " + std::to_string(e2) + " u", det("rho*u", (long double)lmom, mref));
      else note(std::string("sod|rho_u|") + RN[region] + "|" + (sizeof(S) == 8 ? "d" : "l"), e2);
      if (cs == 0 && k < 5) LOG.sample(det("rho", (long double)lr, rho));
      if (!have[region]) { have[region] = true; lrho[region] = (long double)lr; lm[region] = (long double)lmom; xis[region] = xi2; }
    }
    // ---- reference-free invariants on the library's own outputs (need one sample in each region)
    if (have[0] && have[1] && have[2] && have[3] && have[4]) {
      ninv++;
      long double g = (long double)G, cl = sqrtl(g * 1.0L / 1.0L), mu = (g - 1) / (g + 1);
      long double tolr = (sizeof(S) == 8 ? 1e-9L : 1e-12L);
      auto bad = [&](const std::string& key, const std::string& msg, long double a, long double b) {
        if (!(fabsl(a - b) <= tolr * (fabsl(a) + fabsl(b) + 1e-3L)))
          viol_once("sod:invariant:" + key, msg, JObj().str("precision", P).num("Gamma", g).num("lhs", a).num("rhs", b).num("t", (long double)t).done());
      };
      long double uf = lm[1] / lrho[1], usl = lm[2] / lrho[2], usr = lm[3] / lrho[3];
      // fan: u = 2/(G+1) (c_l + x/t), isentropic: c = c_l (rho/rho_l)^((G-1)/2), Riemann invariant u + 2c/(G-1) = 2 c_l/(G-1)
      bad("fan-velocity", "fan velocity is not 2/(G+1)(c_l + x/t)", uf, 2 / (g + 1) * (cl + LD(xis[1])));
      bad("fan-isentropic", "u + 2c/(G-1) not conserved through the fan", uf + 2 * cl * powl(lrho[1], (g - 1) / 2) / (g - 1), 2 * cl / (g - 1));
      bad("left-riemann-invariant-at-star", "u* + 2c*/(G-1) differs from 2 c_l/(G-1)", usl + 2 * cl * powl(lrho[2], (g - 1) / 2) / (g - 1), 2 * cl / (g - 1));
      bad("contact-velocity", "velocity differs across the contact", usl, usr);
      bad("undisturbed-states", "left/right states are not Sod's", lrho[0] + lrho[4] + fabsl(lm[0]) + fabsl(lm[4]), 1.125L);
      // shock: mass RH gives S, momentum RH gives p*, must equal p* from the left isentrope; Hugoniot density ratio
      long double Ssh = lrho[3] * usr / (lrho[3] - 0.125L);
      long double ps_shock = 0.125L + 0.125L * Ssh * usr;
      long double ps_isen = powl(lrho[2], g);
      bad("pressure-across-contact", "p* from the shock jump conditions differs from p* of the left isentrope", ps_shock, ps_isen);
      bad("hugoniot", "post-shock density violates the Hugoniot relation", lrho[3] / 0.125L, (ps_isen / 0.125L + mu) / (mu * ps_isen / 0.125L + 1));
      // locations: the jumps sit where the library's own star state says (contact at u*, shock at S from mass conservation)
      struct Loc { const char* nm; long double speed, inside, outside; } locs[2] = {{"contact", usl, lrho[2], lrho[3]}, {"shock", Ssh, lrho[3], 0.125L}};
      for (auto& L : locs) {
        for (int side = 0; side < 2; side++) {
          long double xi = L.speed * (side == 0 ? 1 - 1e-4L : 1 + 1e-4L);
          S x = (S)(xi * (long double)t);
          CAP.begin(); S lr = masa_eval_source_rho<S>(x, t); CAP.end();
          nloc++;
          long double want = side == 0 ? L.inside : L.outside;
          if (!(fabsl((long double)lr - want) <= 1e-6L * want))
            viol_once(std::string("sod:front-location:") + L.nm, std::string("the ") + L.nm + " is not located where the jump conditions put it",
                      JObj().str("precision", P).num("Gamma", g).num("x_over_t", xi).num("front_speed_from_library_states", L.speed).num("library_rho", (long double)lr).num("expected_rho", want).done());
        }
      }
    }
  }
  LOG.count("sod_comparisons", ncmp);
  LOG.count("sod_invariant_sets", ninv);
  LOG.count("sod_front_location_probes", nloc);
}

// ------------------------------------------------------------------------------------------ cp_normal
template <class S>
static void run_cp(Rng& rng, long ncases) {
  const std::string P = ST<S>::name();
  const double u = U<S>();
  masa_init<S>("cp", "cp_normal");
  long ncmp = 0, nquad = 0, nhist = 0;
  const Q PI2 = 2 * M_PIq;
  for (long cs = 0; cs < ncases; cs++) {
    S m = (S)rng.pm(0.1L, 3.0L), sg = (S)rng.uni(0.2L, 3.0L), sd = (S)rng.uni(0.2L, 3.0L);
    // one case in six in other units: every quantity of the problem (prior mean and deviations, data, evaluation points) times 2^k, |k| <= 450:
    // densities scale by 2^-k, mean by 2^k, variance by 4^k - exactly; one case in six with the data far from the prior mean (10 .. 1e6 deviations)
    long double unit = 1; long double far = 0;
    { int uk = rng.below(6); if (uk == 0) unit = ldexpl(1.0L, (rng.coin() ? 1 : -1) * (60 + rng.below(391))); else if (uk == 1) far = rng.sgn() * powl(10.0L, rng.uni(1.0L, 6.0L)); }
    if (unit != 1) { m = (S)((long double)m * unit); sg = (S)((long double)sg * unit); sd = (S)((long double)sd * unit); LOG.count("cp_cases_in_other_units", 1); }
    if (far != 0) LOG.count("cp_cases_with_data_far_from_the_prior", 1);
    masa_set_param<S>("m", m); masa_set_param<S>("sigma", sg); masa_set_param<S>("sigma_d", sd);
    // history: the data vector is (re)set 1-3 times with other lengths before anything is evaluated
    std::vector<S> data;
    int resets = 1 + rng.below(3);
    for (int k = 0; k < resets; k++) {
      // lengths 1..50 mostly; one time in five a long vector (51..5000), often just around a power of two or with an odd length ("all data vectors")
      static const int LONGN[] = {64, 65, 127, 128, 129, 130, 255, 256, 257, 511, 513, 1000, 1001, 1023, 1025, 4097, 4099, 5000};
      int n = 1 + rng.below(50);
      if (rng.below(5) == 0) n = rng.coin() ? LONGN[rng.below(18)] : 51 + rng.below(4950);
      data.assign((size_t)n, S(0));
      for (auto& d : data) d = (S)((rng.uni(-3.0L, 3.0L) + far * (long double)sd / unit) * unit);
      masa_set_vec<S>("vec_data", data);
      nhist++;
      if (k + 1 < resets && rng.coin()) { CAP.begin(); (void)masa_eval_posterior<S>((S)0.1); CAP.end(); }   // evaluations in between
    }
    Q n = (Q)data.size(), xbar = 0, absmean = 0;
    for (auto& d : data) { xbar += (Q)d; absmean += fabsq((Q)d); }
    xbar /= n; absmean /= n;
    Q s2 = (Q)sg * (Q)sg, sd2 = (Q)sd * (Q)sd;
    Q vp = 1 / (1 / s2 + n / sd2), mp = vp * ((Q)m / s2 + n * xbar / sd2);
    LOG.count("cp_parameter_sets", 1);
    LOG.distinct("cp_data_lengths", std::to_string(data.size()));
    auto cmp = [&](const std::string& what, long double lib, Q ref, Q scale, const std::string& extra) {
      ncmp++;
      double sc = (double)fabsq(scale);
      double r = (double)fabsq((Q)lib - ref) / (u * (sc > 0 ? sc : 1));
      // accuracy: the closed forms are a handful of operations; beyond 2^10 u x (conditioning scale) is not roundoff (soak maxima: 18)
      if (std::isfinite(lib) && r <= 1048576.0 && r > 1024.0)
        viol_once("cp_normal:" + what + "-accuracy", "cp_normal " + what + " agrees with the closed form only to " + std::to_string(r) + " u x scale",
                  JObj().str("precision", P).str("quantity", what).num("library", lib).num("closed_form", LD(ref)).num("m", (long double)m).num("sigma", (long double)sg)
                      .num("sigma_d", (long double)sd).num("n_data", (long)data.size()).num("data_mean", LD(xbar)).num("ratio", r).str("history", extra).done());
      if (!std::isfinite(lib) || r > 1048576.0)
        viol_once("cp_normal:" + what, "cp_normal " + what + " differs from the conjugate-normal closed form",
                  JObj().str("precision", P).str("quantity", what).num("library", lib).num("closed_form", LD(ref)).num("m", (long double)m).num("sigma", (long double)sg)
                      .num("sigma_d", (long double)sd).num("n_data", (long)data.size()).num("data_mean", LD(xbar)).str("history", extra).done());
      else note("cp|" + what + "|" + (sizeof(S) == 8 ? "d" : "l"), r);
    };
    // the evaluators in a random order; posterior mean/variance possibly before any density evaluation (stale-state history)
    int order[5] = {0, 1, 2, 3, 4};
    for (int i = 4; i > 0; i--) std::swap(order[i], order[rng.below(i + 1)]);
    std::string hist = "set_vec x" + std::to_string(resets) + "; order";
    for (int oi = 0; oi < 5; oi++) {
      hist += " " + std::to_string(order[oi]);
      set_ctx("cp:" + P, "cp_normal " + hist);
      CAP.begin();
      switch (order[oi]) {
        case 0: cmp("posterior_mean", (long double)masa_eval_posterior_mean<S>(), mp, fabsq(mp) + sqrtq(vp) + absmean, hist); break;   // a mean is conditioned by the mean magnitude of its terms
        case 1: cmp("posterior_variance", (long double)masa_eval_posterior_variance<S>(), vp, vp, hist); break;
        case 2:
          for (int k = 0; k < 6; k++) {
            S x = (S)(LD(mp) + (long double)rng.uni(-5.0L, 5.0L) * LD(sqrtq(vp)));
            Q ref = expq(-((Q)x - mp) * ((Q)x - mp) / (2 * vp)) / sqrtq(PI2 * vp);
            Q zz = fabsq((Q)x - mp) / sqrtq(vp);
            cmp("posterior", (long double)masa_eval_posterior<S>(x), ref, ref * (1 + (zz + zz * zz) * (fabsq((Q)x) + fabsq(mp) + absmean) / sqrtq(vp) + zz * zz), hist);   // d/dx and d/dmean of the exponent: (x - mean)/var
          }
          break;
        case 3:
          for (int k = 0; k < 6; k++) {
            S x = (S)((long double)m + (long double)rng.uni(-5.0L, 5.0L) * (long double)sg);
            Q ref = expq(-((Q)x - (Q)m) * ((Q)x - (Q)m) / (2 * s2)) / sqrtq(PI2 * s2);
            cmp("prior", (long double)masa_eval_prior<S>(x), ref, ref * (1 + 30), hist);
          }
          break;
        case 4:
          for (int k = 0; k < 6; k++) {
            S x = (S)(LD(xbar) + (long double)rng.uni(-4.0L, 4.0L) * (long double)sd / sqrtl((long double)data.size()));
            Q ll = -(n / (2 * sd2)) * ((Q)x - xbar) * ((Q)x - xbar);
            S llib = masa_eval_loglikelyhood<S>(x), lib = masa_eval_likelyhood<S>(x);
            Q condscale = 1 + fabsq(ll) * (1 + (fabsq((Q)x) + 3) / fabsq((Q)x - xbar + 1e-30Q)) * 4;
            cmp("loglikelihood", (long double)llib, ll, condscale, hist);
            cmp("likelihood", (long double)lib, expq(ll), expq(ll) * condscale, hist);
            // loglikelihood = log(likelihood), reference-free
            long double lg = logl((long double)lib);
            ncmp++;
            if (!(fabsl(lg - (long double)llib) <= 64 * u * (1 + fabsl((long double)llib)) * (double)condscale))
              viol_once("cp_normal:loglikelihood-is-not-log-of-likelihood", "loglikelyhood(x) != log(likelyhood(x))", JObj().str("precision", P).num("x", (long double)x).num("loglikelyhood", (long double)llib).num("log_of_likelyhood", lg).done());
          }
          break;
      }
      CAP.end();
    }
    // central moments k = 0..20: 0 for odd k, sigma^k (k-1)!! for even k
    for (int k = 0; k <= 20 && unit == 1; k++) {
      Q ref = 0;
      if (k % 2 == 0) { ref = powq((Q)sg, k); for (int j = k - 1; j > 1; j -= 2) ref *= j; }
      CAP.begin(); S lib = masa_eval_central_moment<S>(k); CAP.end();
      cmp("central_moment_k" + std::string(k % 2 ? "odd" : (k <= 2 ? "0or2" : "even>=4")), (long double)lib, ref, ref * (1 + k), "k=" + std::to_string(k));
    }
    // ---- reference-free monitors (every 4th case: quadrature is the expensive part)
    if (cs % 4 == 0 && unit == 1 && far == 0) {
      nquad++;
      auto quad = [&](bool post, long double c, long double s, long double* mom) {
        const int N = 1200; long double h = 24 * s / N; mom[0] = mom[1] = mom[2] = 0;
        for (int i = 0; i <= N; i++) {
          long double x = c - 12 * s + i * h;
          long double w = (i == 0 || i == N) ? 0.5L : 1.0L;
          long double f = post ? (long double)masa_eval_posterior<S>((S)x) : (long double)masa_eval_prior<S>((S)x);
          long double xx = (long double)(S)x;
          mom[0] += w * f * h; mom[1] += w * f * xx * h; mom[2] += w * f * xx * xx * h;
        }
      };
      long double mo[3];
      CAP.begin();
      quad(false, (long double)m, (long double)sg, mo);
      long double tolq = sizeof(S) == 8 ? 1e-9L : 1e-10L;
      if (!(fabsl(mo[0] - 1) <= tolq)) viol_once("cp_normal:prior-not-normalised", "the prior does not integrate to 1", JObj().str("precision", P).num("integral", mo[0]).num("sigma", (long double)sg).num("m", (long double)m).done());
      long double sp = sqrtl(LD(vp));
      quad(true, LD(mp), sp, mo);
      if (!(fabsl(mo[0] - 1) <= tolq)) viol_once("cp_normal:posterior-not-normalised", "the posterior does not integrate to 1", JObj().str("precision", P).num("integral", mo[0]).num("sigma_p", sp).done());
      long double mean = (long double)masa_eval_posterior_mean<S>(), var = (long double)masa_eval_posterior_variance<S>();
      long double qmean = mo[1] / mo[0], qvar = mo[2] / mo[0] - qmean * qmean;
      long double sc = fabsl(qmean) + sp;
      if (!(fabsl(qmean - mean) <= 1e-7L * sc)) viol_once("cp_normal:posterior-mean-is-not-first-moment", "posterior_mean() differs from the first moment of posterior(x)", JObj().str("precision", P).num("posterior_mean", mean).num("first_moment_by_quadrature", qmean).num("n_data", (long)data.size()).str("history", hist).done());
      if (!(fabsl(qvar - var) <= 1e-6L * (qvar + sc * sc * 1e-3L))) viol_once("cp_normal:posterior-variance-is-not-second-moment", "posterior_variance() differs from the second central moment of posterior(x)", JObj().str("precision", P).num("posterior_variance", var).num("by_quadrature", qvar).done());
      // posterior proportional to likelihood x prior: ratio constant over x
      long double rmin = 1e300L, rmax = 0;
      for (int k = 0; k < 32; k++) {
        S x = (S)(LD(mp) + (long double)rng.uni(-3.0L, 3.0L) * sp);
        long double den = (long double)masa_eval_prior<S>(x) * (long double)masa_eval_likelyhood<S>(x);
        if (!(den > 1e-250L)) continue;
        long double ratio = (long double)masa_eval_posterior<S>(x) / den;
        rmin = std::min(rmin, ratio); rmax = std::max(rmax, ratio);
      }
      if (rmax > 0 && !(rmax - rmin <= 1e-7L * rmax)) viol_once("cp_normal:posterior-not-proportional-to-likelihood-times-prior", "posterior/(prior*likelihood) is not constant in x", JObj().str("precision", P).num("ratio_min", rmin).num("ratio_max", rmax).done());
      CAP.end();
    }
  }
  LOG.count("cp_comparisons", ncmp);
  LOG.count("cp_quadrature_sets", nquad);
  LOG.count("cp_set_vec_operations", nhist);
}

int main(int argc, char** argv) {
  LOG.open(getarg(argc, argv, "--out"));
  PROP = getarg(argc, argv, "--prop", "C08");
  CAP.install();
  install_crash_handlers();
  uint64_t seed = strtoull(getarg(argc, argv, "--seed", "1").c_str(), 0, 10);
  int shard = atoi(getarg(argc, argv, "--shard", "0").c_str());
  long n = atol(getarg(argc, argv, "--cases", "50").c_str());
  std::string what = getarg(argc, argv, "--what", "sod"), prec = getarg(argc, argv, "--prec", "d");
  Rng r(seed, 77000 + (uint64_t)shard);
  if (what == "sod") { if (prec == "d") run_sod<double>(r, n); else run_sod<long double>(r, n); }
  else { if (prec == "d") run_cp<double>(r, n); else run_cp<long double>(r, n); }
  for (auto& kv : g_max) LOG.stat("ratio", JObj().str("k", kv.first).num("max", kv.second).num("n", 1).done());
  for (auto& kv : g_vc) LOG.stat("violcount", JObj().str("k", kv.first).num("n", kv.second).done());
  end_ok();
  return 0;
}
