// C20 monitor: specialising parameters maps one catalogue solution onto another. Two handles in one process;
// shared parameters drawn once and set on both; the specialising parameters zeroed on the richer one (after the
// copy, and verified through masa_get_param); sources compared at random points. No transcribed formula is used
// for the verdict: the oracle of the simpler solution only supplies the roundoff scale e.
#include "common.hpp"
#include "oracle/oracle.hpp"
using namespace vh;
using namespace MASA;
using orc::EQ;

struct Red {
  std::string name, rich, simple;
  std::vector<std::string> zero;                                 // specialising assignments on the rich handle
  std::vector<std::pair<std::string, std::string>> pairs;        // (rich evaluator, simple evaluator)
  int extra;                                                     // number of extra trailing coordinates of the rich solution
};

static std::vector<std::pair<std::string, std::string>> src_pairs(const std::vector<std::string>& names, const std::string& rpre, int rn, const std::string& spre, int sn) {
  std::vector<std::pair<std::string, std::string>> v;
  for (auto& n : names) {
    std::string r = (n == "rho") ? "source_rho" : rpre + n, s = (n == "rho") ? "source_rho" : spre + n;
    v.push_back({r + "/S" + std::to_string(rn), s + "/S" + std::to_string(sn)});
  }
  return v;
}

static std::vector<Red> table() {
  std::vector<Red> t;
  // 3-D -> 2-D (z amplitudes and the w field zero; z arbitrary)
  for (const char* fam : {"euler", "navierstokes"}) {
    std::string r = std::string(fam) + (fam[0] == 'e' ? "_3d" : "_3d_compressible"), s = std::string(fam) + (fam[0] == 'e' ? "_2d" : "_2d_compressible");
    t.push_back({r + "->" + s, r, s, {"rho_z", "u_z", "v_z", "p_z", "w_0", "w_x", "w_y", "w_z"}, src_pairs({"rho", "u", "v", "e"}, "source_rho_", 3, "source_rho_", 2), 1});
  }
  // mu = k = 0: Navier-Stokes -> Euler
  t.push_back({"ns2d->euler2d", "navierstokes_2d_compressible", "euler_2d", {"mu", "k"}, src_pairs({"rho", "u", "v", "e"}, "source_rho_", 2, "source_rho_", 2), 0});
  t.push_back({"ns3d->euler3d", "navierstokes_3d_compressible", "euler_3d", {"mu", "k"}, src_pairs({"rho", "u", "v", "w", "e"}, "source_rho_", 3, "source_rho_", 3), 0});
  // temporal amplitudes zero: transient Euler -> steady Euler (t and the a_*t arbitrary)
  t.push_back({"euler_transient_1d->euler_1d", "euler_transient_1d", "euler_1d", {"rho_t", "u_t", "p_t"}, src_pairs({"rho", "u", "e"}, "source_rho_", 2, "source_rho_", 1), 1});
  t.push_back({"euler_transient_2d->euler_2d", "euler_transient_2d", "euler_2d", {"rho_t", "u_t", "v_t", "p_t"}, src_pairs({"rho", "u", "v", "e"}, "source_", 3, "source_rho_", 2), 1});
  t.push_back({"euler_transient_3d->euler_3d", "euler_transient_3d", "euler_3d", {"rho_t", "u_t", "v_t", "w_t", "p_t"}, src_pairs({"rho", "u", "v", "w", "e"}, "source_", 4, "source_rho_", 3), 1});
  // heat: unsteady -> steady (A_t = B_t = C_t = D_t = 0), variable -> constant properties (k_1 = k_2 = cp_1 = cp_2 = 0)
  for (int d = 1; d <= 3; d++) {
    std::string D = std::to_string(d);
    for (const char* cv : {"const", "var"}) {
      std::vector<std::string> z = {"A_t", "D_t"};
      if (d >= 2) z.push_back("B_t");
      if (d >= 3) z.push_back("C_t");
      t.push_back({"heat" + D + "d_unsteady_" + cv + "->steady", "heateq_" + D + "d_unsteady_" + cv, "heateq_" + D + "d_steady_" + cv, z,
                   {{"source_t/S" + std::to_string(d + 1), "source_t/S" + D}}, 1});
    }
    t.push_back({"heat" + D + "d_steady_var->const", "heateq_" + D + "d_steady_var", "heateq_" + D + "d_steady_const", {"k_1", "k_2"}, {{"source_t/S" + D, "source_t/S" + D}}, 0});
    t.push_back({"heat" + D + "d_unsteady_var->const", "heateq_" + D + "d_unsteady_var", "heateq_" + D + "d_unsteady_const", {"k_1", "k_2", "cp_1", "cp_2"},
                 {{"source_t/S" + std::to_string(d + 1), "source_t/S" + std::to_string(d + 1)}}, 0});
  }
  return t;
}

static long g_cmp = 0;
static std::map<std::string, double> g_max;

template <class S>
static void run(const Red& rd, uint64_t seed, long case0, long ncases, int npoints) {
  const std::string P = ST<S>::name();
  const double u = sizeof(S) == 8 ? 0x1p-53 : 0x1p-64;
  const orc::Sol* os = orc::find(rd.simple);
  const orc::Sol* orich = orc::find(rd.rich);
  if (!os || !orich) harness_fail("no oracle for " + rd.simple + " / " + rd.rich);
  masa_init<S>("rich", rd.rich);
  std::vector<std::string> rn = param_names<S>();
  masa_init<S>("simple", rd.simple);
  std::vector<std::string> sn = param_names<S>();
  std::set<std::string> rset(rn.begin(), rn.end());
  for (auto& z : rd.zero) if (!rset.count(z)) harness_fail("reduction " + rd.name + ": rich solution has no parameter " + z);
  long double prev_pt[4] = {0, 0, 0, 0}; bool have_prev = false;
  for (long cs = case0; cs < case0 + ncases; cs++) {
    Rng r(seed, std::hash<std::string>()(rd.name) % 1000003 * 7919ULL + (uint64_t)cs * 2 + (sizeof(S) == 8 ? 0 : 1));
    orc::Draw ds, dr;
    os->draw(r, ds, sn);
    // a quarter of the vectors with special values (zeros, +-1, integers, half-integers, equal parameters, zeroed families) on the simpler solution
    { std::string what; if (r.below(4) == 0) { orc::specialise(r, *os, ds, sn, what); if (!what.empty()) LOG.count("parameter_vectors_with_special_values", 1); } }
    orich->draw(r, dr, rn);          // values for the parameters only the rich solution has (R, a_*t, ...)
    orc::Ctx base; base.sol = rd.simple; base.nx = os->nargs;
    set_ctx("reduce:" + rd.name, "setting parameters");
    int shared = 0;
    bool wrong = false;
    // the two solutions live on two handles of one process: whichever way the handles were (re-)initialised and selected, the
    // handle named must be the one that answers (checked through masa_get_name before anything is set or compared)
    auto expect = [&](const std::string& h, const std::string& sol, const std::string& how) {
      std::string got; masa_get_name<S>(&got);
      if (got != sol && !wrong) {
        wrong = true;
        LOG.viol("C20", "wrong-solution-answers-for-handle:" + rd.name, "after " + how + " of handle '" + h + "' (" + sol + ") the library answers for '" + got + "'",
                 JObj().str("reduction", rd.name).str("handle", h).str("expected", sol).str("answers", got).str("history", how).num("case", cs).done());
      }
    };
    auto sel = [&](const std::string& h, const std::string& sol) { CAP.begin(); masa_select_mms<S>(h); CAP.end(); expect(h, sol, "masa_select_mms"); };
    auto ini = [&](const std::string& h, const std::string& sol) { CAP.begin(); masa_init<S>(h, sol); CAP.end(); expect(h, sol, "masa_init (re-initialisation)"); };
    auto cfg_simple = [&] { for (auto& n : sn) { masa_set_param<S>(n, (S)ds.v[n]); base.P[n] = EQ::exact((orc::Q)masa_get_param<S>(n)); } };
    auto cfg_rich = [&] {
      for (auto& n : rn) masa_set_param<S>(n, (S)dr.v[n]);
      shared = 0;
      for (auto& n : sn) if (rset.count(n)) { masa_set_param<S>(n, (S)ds.v[n]); shared++; }
      // the specialising assignments come AFTER the copy (the Euler classes register dead k, mu)
      for (auto& z : rd.zero) masa_set_param<S>(z, S(0));
    };
    // histories: 0 select each and configure | 1 select(rich), re-init(simple), configure it unselected-by-name, select(rich) |
    // 2 select(simple), re-init(rich), configure, select(simple) | 3 both re-initialised, rich configured first
    int variant = r.below(4);
    LOG.count("history_variant_" + std::to_string(variant), 1);
    // one case in twelve: so many redundant writes before the configuration that the number of parameter writes since the handle's
    // last evaluation is exactly 2^16 (a modification counter of 16 bits would be back where it was)
    if (have_prev && r.below(12) == 0 && (variant == 0 || variant == 1)) {
      long shared_n = 0; for (auto& n : sn) if (rset.count(n)) shared_n++;
      long total = 65536 - ((long)rn.size() + shared_n + (long)rd.zero.size());
      CAP.begin(); masa_select_mms<S>("rich"); CAP.end();
      S cur = masa_get_param<S>(rn[0]);
      for (long k = 0; k < total; k++) masa_set_param<S>(rn[0], cur);
      LOG.count("write_storms", 1);
    }
    if (have_prev && r.below(12) == 0 && (variant == 0 || variant == 2)) {
      long total = 65536 - (long)sn.size();
      CAP.begin(); masa_select_mms<S>("simple"); CAP.end();
      S cur = masa_get_param<S>(sn[0]);
      for (long k = 0; k < total; k++) masa_set_param<S>(sn[0], cur);
      LOG.count("write_storms", 1);
    }
    switch (variant) {
      case 0: sel("simple", rd.simple); if (!wrong) cfg_simple(); sel("rich", rd.rich); if (!wrong) cfg_rich(); break;
      case 1: sel("rich", rd.rich); ini("simple", rd.simple); if (!wrong) cfg_simple(); sel("rich", rd.rich); if (!wrong) cfg_rich(); break;
      case 2: sel("simple", rd.simple); ini("rich", rd.rich); if (!wrong) cfg_rich(); sel("simple", rd.simple); if (!wrong) cfg_simple(); break;
      default: ini("simple", rd.simple); ini("rich", rd.rich); if (!wrong) cfg_rich(); sel("simple", rd.simple); if (!wrong) cfg_simple(); break;
    }
    if (wrong) continue;
    sel("rich", rd.rich);
    for (auto& z : rd.zero) if (masa_get_param<S>(z) != S(0)) harness_fail("specialising assignment not in force: " + z);
    LOG.count("parameter_vectors", 1);
    LOG.distinct("reductions", rd.name);
    std::map<std::string, long double> pmap; for (auto& n : sn) pmap[n] = ds.v[n];
    for (int pt = 0; pt < npoints; pt++) {
      long double xs[4] = {0, 0, 0, 0};
      // structured points and variants of the previous point (same generator as the PDE monitor), in the simpler solution's coordinates
      orc::PointInfo pinfo;
      orc::make_point(r, *os, pmap, prev_pt, have_prev, false, xs, pinfo);
      for (int i = os->nargs; i < os->nargs + rd.extra; i++) xs[i] = (have_prev && r.coin()) ? prev_pt[i] : r.uni(-2.0L, 2.0L);   // arbitrary z / t (often the previous one)
      for (int i = 0; i < 4; i++) xs[i] = (long double)(S)xs[i];
      for (int i = 0; i < 4; i++) prev_pt[i] = xs[i];
      have_prev = true;
      S a[4];
      orc::Ctx c = base;
      for (int i = 0; i < 4; i++) { a[i] = (S)xs[i]; if (i < os->nargs) c.x[i] = EQ::exact((orc::Q)a[i]); }
      os->eval(c);
      if (c.near_branch) continue;
      for (auto& pr : rd.pairs) {
        int ri = ev_index(pr.first), si = ev_index(pr.second);
        if (ri < 0 || si < 0) harness_fail("bad evaluator id in reduction table: " + pr.first + " / " + pr.second);
        set_ctx("reduce:" + rd.name + ":" + pr.first, rd.name + " " + pr.first);
        sel("rich", rd.rich);
        CAP.begin(); S vr = call_ev<S>(api()[ri], a, 0, nullptr); CAP.end();
        sel("simple", rd.simple);
        CAP.begin(); S vs = call_ev<S>(api()[si], a, 0, nullptr); CAP.end();
        if (wrong) break;
        auto it = c.out.find(pr.second);
        if (it == c.out.end()) harness_fail("oracle of " + rd.simple + " has no " + pr.second);
        double scale = std::max(it->second.ref.e, orc::absd(it->second.ref.v));
        double diff = (double)fabsl((long double)vr - (long double)vs);
        double ratio = diff == 0 ? 0.0 : diff / (u * scale);   // identical values (e.g. both exactly 0 when whole families are zeroed) agree whatever the scale
        g_cmp++;
        double& m = g_max[rd.name + "|" + pr.first + "|" + (sizeof(S) == 8 ? "d" : "l")];
        if (ratio > m) m = ratio;
        bool bad = !(ratio <= 1048576.0) || !std::isfinite((long double)vr) || !std::isfinite((long double)vs);
        if (bad || g_cmp <= 2) {
          std::vector<long double> pv(xs, xs + os->nargs + rd.extra);
          JObj po; for (auto& n : sn) po.num(n, (long double)ds.v[n]);
          std::string det = JObj().str("reduction", rd.name).str("rich_evaluator", pr.first).str("simple_evaluator", pr.second).str("precision", P)
                                .num("rich_value", (long double)vr).num("simple_value", (long double)vs).num("ratio_in_units_of_u_e", ratio).raw("point", jarr(pv))
                                .raw("zeroed_on_rich", jarrs(rd.zero)).num("shared_parameters", shared).raw("simple_params", po.done()).done();
          if (bad) LOG.viol("C20", "reduction-mismatch:" + rd.name + ":" + pr.first, "specialised source differs from the simpler solution's source beyond roundoff", det);
          else LOG.sample(det);
        }
      }
    }
  }
}

int main(int argc, char** argv) {
  LOG.open(getarg(argc, argv, "--out"));
  CAP.install();
  install_crash_handlers();
  uint64_t seed = strtoull(getarg(argc, argv, "--seed", "1").c_str(), 0, 10);
  long case0 = atol(getarg(argc, argv, "--case0", "0").c_str()), ncases = atol(getarg(argc, argv, "--cases", "10").c_str());
  int npoints = atoi(getarg(argc, argv, "--points", "8").c_str());
  std::string prec = getarg(argc, argv, "--prec", "d"), only = getarg(argc, argv, "--red", "");
  if (hasflag(argc, argv, "--list")) { for (auto& r : table()) fprintf(stderr, "%s\n", r.name.c_str()); LOG.count("listed", (long long)table().size()); end_ok(); return 0; }
  for (auto& rd : table()) {
    if (!only.empty() && only != rd.name) continue;
    if (prec == "d") run<double>(rd, seed, case0, ncases, npoints); else run<long double>(rd, seed, case0, ncases, npoints);
  }
  LOG.count("comparisons", g_cmp);
  for (auto& kv : g_max) LOG.stat("ratio", JObj().str("k", kv.first).num("max", kv.second).num("n", 1).done());
  end_ok();
  return 0;
}
