// C18 helper: executes a call plan through the C++ <double> API and prints one line per result, in the format
// the generated Fortran driver uses, so that the two outputs can be compared bit for bit.
// It also serves as the "header subset of library" probe: --symbols prints nothing but forces every extern "C"
// declaration of masa.h to be referenced (link fails if one is not defined).
#include "common.hpp"
#include <cinttypes>
using namespace vh;
using namespace MASA;

static double keq(double T) { return 2.5 + 0.125 * T; }
static std::string hex(double v) { uint64_t u; memcpy(&u, &v, 8); char b[32]; snprintf(b, sizeof b, "%016" PRIX64, u); return b; }

int main(int argc, char** argv) {
  LOG.open(getarg(argc, argv, "--out", "/dev/null"));
  CAP.install();
  std::ifstream plan(getarg(argc, argv, "--plan"));
  FILE* res = fopen(getarg(argc, argv, "--result").c_str(), "w");
  if (!plan || !res) { fprintf(stderr, "c18_truth: cannot open plan/result\n"); return 2; }
  std::string line;
  while (std::getline(plan, line)) {
    std::istringstream is(line);
    std::string op; is >> op;
    if (op == "init") { std::string h, s; is >> h >> s; masa_init<double>(h, s); fprintf(res, "init %s\n", s.c_str()); }
    else if (op == "select") { std::string h; is >> h; masa_select_mms<double>(h); fprintf(res, "select %s\n", h.c_str()); }
    else if (op == "set") { std::string n; double v; is >> n >> v; masa_set_param<double>(n, v); fprintf(res, "set %s\n", n.c_str()); }
    else if (op == "get") { std::string n; is >> n; fprintf(res, "get %s %s\n", n.c_str(), hex(masa_get_param<double>(n)).c_str()); }
    else if (op == "getarray") { std::string n; is >> n; std::vector<double> v; masa_get_vec<double>(n, v); fprintf(res, "getarray %s %d", n.c_str(), (int)v.size()); for (double x : v) fprintf(res, " %s", hex(x).c_str()); fprintf(res, "\n"); }
    else if (op == "call0") { std::string n; is >> n;
      if (n == "masa_list_mms") masa_list_mms<double>(); else if (n == "masa_purge_default_param") masa_purge_default_param<double>();
      else if (n == "masa_sanity_check") masa_sanity_check<double>(); else if (n == "masa_init_param") masa_init_param<double>();
      else if (n == "masa_display_param") masa_display_param<double>(); else if (n == "masa_display_array") masa_display_vec<double>();
      else { fprintf(stderr, "c18_truth: unknown call0 %s\n", n.c_str()); return 2; }
      fprintf(res, "call0 %s\n", n.c_str()); }
    else if (op == "eval") {
      // eval <cname> <evid> <nargs> a1.. [idx]
      std::string cname, evid; int n; is >> cname >> evid >> n;
      double a[4] = {0, 0, 0, 0}; for (int i = 0; i < n; i++) is >> a[i];
      int idx = 0; is >> idx;
      int ei = ev_index(evid);
      if (ei < 0) { fprintf(stderr, "c18_truth: unknown evaluator %s\n", evid.c_str()); return 2; }
      double v = call_ev<double>(api()[ei], a, idx, keq);
      fprintf(res, "eval %s %s\n", cname.c_str(), hex(v).c_str());
    }
    fflush(res);
  }
  fclose(res);
  return 0;
}
