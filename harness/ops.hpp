// Operations of the history monitors: each performs the call on the real library, updates the sequential
// model and compares (shared by mon_hist.cpp and mon_cabi.cpp).
#pragma once
#include "model.hpp"
#include <type_traits>
#include <cerrno>
using namespace vh;
using namespace MASA;

static Rng* R;
static std::vector<std::string> SOLS;          // catalogue without the two fixtures
static long double POOL[32][4];
static double cbK_d(double) { return 2.5; }
static long double cbK_l(long double) { return 2.5L; }
// re-entrant variants: the callback calls the library again (same handle, another point) before returning its constant
static bool g_in_cb = false;
static double cbKre_d(double) { if (!g_in_cb) { g_in_cb = true; volatile double q = MASA::masa_eval_source_rho_u<double>(0.8125); (void)q; volatile double t = MASA::masa_eval_exact_t<double>(-0.4375); (void)t; g_in_cb = false; } return 2.5; }
static long double cbKre_l(long double) { if (!g_in_cb) { g_in_cb = true; volatile long double q = MASA::masa_eval_source_rho_u<long double>(0.8125L); (void)q; volatile long double t = MASA::masa_eval_exact_t<long double>(-0.4375L); (void)t; g_in_cb = false; } return 2.5L; }
template <class S> static FP<S> cbKre();
template <> FP<double> cbKre<double>() { return cbKre_d; }
template <> FP<long double> cbKre<long double>() { return cbKre_l; }
template <class S> static FP<S> cbK();
template <> FP<double> cbK<double>() { return cbK_d; }
template <> FP<long double> cbK<long double>() { return cbK_l; }
static bool g_allow_wild = true;
static FpEnv g_fpenv_ops = fpenv_now();
static std::string g_focus = "store";

static std::string rand_handle() {
  // handles are used verbatim: twins that differ only by a trailing / leading blank, by case or by a dash must stay distinct
  // ... and two long handles that share their first 64 characters
  static const std::string LONG64(64, 'L');
  // ... the empty string (an ordinary key), and pairs of distinct strings that collide under the usual string hashes (FNV-1a 32: costarring/liquid,
  // declinate/macallums; multiplier-31: Aa/BB, AaAa/BBBB; djb2: hetairas/mentioner): a registry keyed by a hash must still keep them apart
  static const std::string H[] = {"A", "B", "C", "d e", "E-1", "twin-src", "A ", " A", "a", "E1", LONG64 + "-one", LONG64 + "-two", "",
                                  "costarring", "liquid", "declinate", "macallums", "Aa", "BB", "AaAa", "BBBB", "hetairas", "mentioner",
                                  "case_%d", "load=50%%", "%s%s", "%5$n"};   // ... and handles that are printf formats (a handle is data, never a format)
  int k = R->below(6);
  if (k == 0) return R->below(3) == 0 ? H[23 + R->below(4)] : H[6 + R->below(7)];
  if (k == 1) { int pair = R->below(5); return H[13 + 2 * pair + R->below(2)]; }
  return H[R->below(6)];
}
static std::string pick_sol() {
  // weighted towards the stateful solutions the properties name
  static const char* HOT[] = {"fans_sa_steady_wall_bounded", "sod_1d", "cp_normal", "radiation_integrated_intensity", "navierstokes_4d_compressible_powerlaw", "euler_1d", "heateq_2d_steady_const"};
  if (R->below(3) == 0) return HOT[R->below(7)];
  return SOLS[(size_t)R->below((int)SOLS.size())];
}

template <class S> static S draw_value(S def, bool wild) {
  if (wild && sizeof(S) > 8 && R->below(3) == 0) {
    // finite long double values outside the range of double (a bound or a conversion written for double would mistreat them)
    static const long double XL[] = {1e400L, -1e400L, 1e-400L, -1.234567890123456e-2000L, -9.876543210987654e+4000L, 3.5e4931L, -3.645199531882474e-4951L};
    return (S)XL[R->below(7)];
  }
  if (wild) {
    switch (R->below(5)) {
      case 0: return (S)R->uni(-100.0L, 100.0L);
      case 1: return (S)(R->pm(1.0L, 9.0L) * 1e-30L);
      case 2: return (S)(R->pm(1.0L, 9.0L) * 1e30L);
      case 3: return S(0);
      default: return (S)R->pm(0.001L, 1000.0L);
    }
  }
  if (def == S(0) || def == marker<S>() || !(def == def)) return (S)R->pm(0.1L, 1.0L);
  // mostly a neighbourhood of the default, one time in three up to two decades away from it (branches of piecewise closures that the
  // defaults never enter; purity and the store do not depend on admissibility)
  if (R->below(3) == 0) return (S)((long double)def * powl(10.0L, R->uni(-2.0L, 2.0L)));
  return (S)((long double)def * R->uni(0.5L, 1.5L));
}

// ------------------------------------------------------------------ operations (library + model, then compare)
template <class S> struct Ops {
  Model<S>& m;
  const std::string P = ST<S>::name();
  explicit Ops(Model<S>& mm) : m(mm) {}

  void learn_after_init(const std::string& h, const std::string& sol) {
    Inst<S> in; in.sol = sol; in.version = next_version();
    Snap<S> s = observe<S>();
    in.sc = in.sc0 = s.sc; in.vec = in.vec0 = s.vec;
    auto it = m.defaults.find(sol);
    m.h[h] = in; m.sel = h; m.recent[h].clear();
    if (it == m.defaults.end()) m.defaults[sol] = in;
    else {
      // a (re-)initialised handle holds a FRESH instance with default parameters: identical to the first one ever seen
      Inst<S> keep = m.h[h];
      m.h[h].sc = it->second.sc0; m.h[h].vec = it->second.vec0;
      compare_selected(m, "C12", "init-not-default", "right after masa_init(\"" + h + "\",\"" + sol + "\") the instance does not hold the default parameters", false);
      m.h[h] = keep;
    }
  }
  // the double registry is also reached through the C entry points: a quarter of the double-precision inits / selects go that way
  bool via_c() const { return std::is_same<S, double>::value && R->below(4) == 0; }
  void init(const std::string& h, const std::string& sol) {
    const bool c = via_c();
    hist(std::string(c ? "C masa_init" : "masa_init<" + P + ">") + "(\"" + h + "\",\"" + sol + "\")");
    CAP.begin(); int rc = c ? ::masa_init(h.c_str(), sol.c_str()) : masa_init<S>(h, sol); std::string out = CAP.end();
    if (rc != 0) hviol("C12", "init-returned-nonzero", "masa_init returned " + std::to_string(rc));
    learn_after_init(h, sol);
    compare_identity(m, "C12", "after masa_init");
  }
  void select(const std::string& h) {
    const bool c = via_c();
    hist(std::string(c ? "C masa_select_mms" : "masa_select_mms<" + P + ">") + "(\"" + h + "\")");
    CAP.begin(); if (c) ::masa_select_mms(h.c_str()); else masa_select_mms<S>(h); CAP.end();
    m.sel = h;
    compare_identity(m, "C12", "after masa_select_mms");
    compare_selected(m, "C12", "isolation", "after selecting '" + h + "' its parameters are not the ones last set on it");
  }
  std::string pick_name(bool vec = false) {
    auto& in = m.cur();
    if (vec) { if (in.vec.empty()) return ""; auto it = in.vec.begin(); std::advance(it, R->below((int)in.vec.size())); return it->first; }
    if (in.sc.empty()) return "";
    auto it = in.sc.begin(); std::advance(it, R->below((int)in.sc.size())); return it->first;
  }
  std::string bad_name(bool vec = false) {
    std::string n = pick_name(vec);
    switch (R->below(6)) {
      case 0: { std::string s; int L = 1 + R->below(8); for (int i = 0; i < L; i++) s += "abcxyz_019"[R->below(10)]; n = s; break; }
      case 1: if (!n.empty()) n[0] = (char)toupper(n[0]); else n = "X"; if (m.cur().sc.count(n) || m.cur().vec.count(n)) n += "#"; break;
      case 2: n = n.size() > 1 ? n.substr(0, n.size() - 1) : n + "_"; break;          // proper prefix
      case 3: n = n.size() > 1 ? n.substr(1) : "_" + n; break;                          // proper suffix
      case 4: n = ""; break;
      default: n = n + " "; break;
    }
    if (m.cur().sc.count(n) || m.cur().vec.count(n)) n += "?";
    return n;
  }
  void set_param() {
    std::string n = pick_name(); if (n.empty()) return;
    auto& in = m.cur();
    bool wild = g_allow_wild && R->below(5) == 0 && !(in.sol == "sod_1d" && !kExceptions);
    S v = draw_value<S>(in.sc0[n], wild);
    hist("masa_set_param<" + P + ">(\"" + n + "\"," + jnum((long double)v) + ") on " + m.sel + ":" + in.sol);
    bool had_rec = !m.recent[m.sel].empty();
    EvalRec last_rec; if (had_rec) last_rec = m.recent[m.sel].back();
    CAP.begin(); masa_set_param<S>(n, v); std::string out = CAP.end();
    in.sc[n] = v; in.version = next_version(); m.recent[m.sel].clear(); if (wild) in.wild = true;
    CAP.begin(); S back = masa_get_param<S>(n); CAP.end();
    if (!biteq(back, v)) hviol("C11", "set-get-roundtrip:" + in.sol, "masa_get_param(\"" + n + "\") returned " + sval(back) + " after masa_set_param(" + sval(v) + ")");
    (void)out;   // what masa_set_param prints is not part of the property
    compare_selected(m, "C11", "set-leak", "after masa_set_param(\"" + n + "\")");
    // the very next evaluation repeats the last call made BEFORE the change (same evaluator, same point): a cache keyed on
    // the point alone shows up when a fresh handle with the new parameters disagrees
    if (had_rec && g_focus == "purity" && R->coin() && !(in.sol == "sod_1d" && !kExceptions && in.wild)) {
      const Ev& e = api()[last_rec.ev];
      hist("masa_eval_" + e.id + "<" + P + "> repeated at the same point right after the parameter change on " + m.sel + ":" + in.sol);
      std::string b2 = eval_bits(e, last_rec.a, last_rec.idx);
      CNT.evals++;
      Snap<S> sn = observe<S>(); in.sc = sn.sc; in.vec = sn.vec;
      m.recent[m.sel].push_back(EvalRec{last_rec.ev, {last_rec.a[0], last_rec.a[1], last_rec.a[2], last_rec.a[3]}, last_rec.idx, b2});
      twin();
    }
  }
  void set_invalid() {
    std::string n = bad_name();
    hist("masa_set_param<" + P + ">(\"" + n + "\",1.5) [unknown name] on " + m.sel);
    CAP.begin(); masa_set_param<S>(n, S(1.5)); std::string out = CAP.end();
    (void)out;   // C11 says what an unknown name does to the store (nothing) and what get returns (-20), not what is printed: the text is not judged
    CAP.begin(); S g = masa_get_param<S>(n); std::string o2 = CAP.end();
    if (!(g == S(-20))) hviol("C11", "get-unknown-not-minus-20", "masa_get_param of unknown name '" + n + "' returned " + sval(g));
    (void)o2;
    compare_selected(m, "C11", "unknown-name-changed-state", "after set/get of unknown name '" + n + "'");
  }
  void get_param() {
    std::string n = pick_name(); if (n.empty()) return;
    hist("masa_get_param<" + P + ">(\"" + n + "\") on " + m.sel);
    CAP.begin(); S g = masa_get_param<S>(n); CAP.end();
    if (!biteq(g, m.cur().sc[n])) hviol("C11", "get-mismatch:" + m.cur().sol + ":" + n, "masa_get_param(\"" + n + "\") = " + sval(g) + ", model " + sval(m.cur().sc[n]));
  }
  void init_param() {
    auto& in = m.cur();
    hist("masa_init_param<" + P + ">() on " + m.sel + ":" + in.sol);
    CAP.begin(); int rc = masa_init_param<S>(); CAP.end();
    if (rc != 0) hviol("C11", "init_param-status:" + in.sol, "masa_init_param returned " + std::to_string(rc));
    in.sc = in.sc0; in.vec = in.vec0; in.version = next_version(); in.wild = false; m.recent[m.sel].clear();
    compare_selected(m, "C11", "init_param-restore", "after masa_init_param");
  }
  void purge() {
    auto& in = m.cur();
    if (in.sol == "sod_1d" && !kExceptions) return;   // a purged Sod can call exit(); the exit() build keeps it sane
    hist("masa_purge_default_param<" + P + ">() on " + m.sel + ":" + in.sol);
    CAP.begin(); masa_purge_default_param<S>(); CAP.end();
    for (auto& kv : in.sc) kv.second = marker<S>();
    in.version = next_version(); in.wild = true; m.recent[m.sel].clear();
    compare_selected(m, "C11", "purge", "after masa_purge_default_param");
  }
  void sanity() {
    auto& in = m.cur();
    int want = 0;
    for (auto& kv : in.sc) if (kv.second == marker<S>()) want = 1;
    for (auto& kv : in.vec) if (kv.second.empty()) want = 1;
    hist("masa_sanity_check<" + P + ">() on " + m.sel + ":" + in.sol);
    CAP.begin(); int rc = masa_sanity_check<S>(); CAP.end();
    if ((rc == 0) != (want == 0)) hviol("C11", "sanity_check-status:" + in.sol, "masa_sanity_check returned " + std::to_string(rc) + ", model expects " + (want ? "non-zero" : "0"));
    compare_selected(m, "C11", "sanity-changed-state", "after masa_sanity_check");
  }
  // the solution whose parameters are vectors: all three vectors set to one common length (1..64, also beyond the default 25 and
  // beyond / below the scalar no_gauss), then both evaluators are compared with the sums over the vectors just set
  void set_vec_triple() {
    auto& in = m.cur();
    static const int LENS[] = {1, 2, 3, 7, 24, 25, 26, 27, 40, 64, 65, 70, 90, 129, 150, 300, 1000};
    int len = R->coin() ? LENS[R->below(17)] : 1 + R->below(64);
    for (const char* n : {"vec_amp", "vec_mean", "vec_stdev"}) {
      if (!in.vec.count(n)) return;
      std::vector<S> v((size_t)len);
      for (auto& x : v) x = (S)(n[4] == 'a' ? R->uni(1.0L, 10.0L) : n[4] == 'm' ? R->uni(0.0L, 1.0L) : R->uni(0.02L, 0.5L));
      hist("masa_set_vec<" + P + ">(\"" + n + "\",len " + std::to_string(len) + ") [consistent triple] on " + m.sel + ":" + in.sol);
      CAP.begin(); masa_set_vec<S>(n, v); CAP.end();
      in.vec[n] = v; in.version = next_version(); m.recent[m.sel].clear();
    }
    compare_selected(m, "C11", "set_vec-leak", "after setting the three radiation vectors");
    eval(ev_index("source_u/S1")); eval(ev_index("exact_u/S1"));
    // the far-field branch of the integrated intensity (x > 1000) uses the vectors as well
    static const long double FAR[2][4] = {{1500.25L, 0, 0, 0}, {1000.5L, 0, 0, 0}};
    eval(ev_index("exact_u/S1"), FAR[R->below(2)]);
    if (g_focus == "purity" || R->below(4) == 0) twin();   // a fresh instance given the same vectors must reproduce these values bit for bit
  }
  void set_vec() {
    auto& in = m.cur();
    if (in.sol == "radiation_integrated_intensity" && R->coin()) { set_vec_triple(); return; }
    std::string n = pick_name(true);
    bool invalid = n.empty() || R->below(6) == 0;
    if (invalid) {
      n = bad_name(true);
      std::vector<S> v(3, S(1));
      hist("masa_set_vec<" + P + ">(\"" + n + "\",len 3) [unknown name] on " + m.sel);
      CAP.begin(); masa_set_vec<S>(n, v); std::string out = CAP.end();
      (void)out;
      std::vector<S> g(2, S(7)); CAP.begin(); int rc = masa_get_vec<S>(n, g); CAP.end();
      if (rc == 0) hviol("C11", "get_vec-unknown-status", "masa_get_vec of unknown name '" + n + "' returned 0");
      compare_selected(m, "C11", "unknown-vector-changed-state", "after set_vec/get_vec of unknown name");
      return;
    }
    static const int LENS[] = {0, 1, 2, 3, 5, 8, 13, 25, 40, 64, 65, 128, 129, 200, 257, 1000, 1001};
    int len = R->coin() ? LENS[R->below(17)] : R->below(65);
    if (!kExceptions && in.sol == "sod_1d") return;
    std::vector<S> v((size_t)len);
    for (auto& x : v) x = (S)R->uni(-3.0L, 3.0L);
    hist("masa_set_vec<" + P + ">(\"" + n + "\",len " + std::to_string(len) + ") on " + m.sel + ":" + in.sol);
    CAP.begin(); masa_set_vec<S>(n, v); CAP.end();
    in.vec[n] = v; in.version = next_version(); m.recent[m.sel].clear();
    std::vector<S> g(1, S(99)); CAP.begin(); int rc = masa_get_vec<S>(n, g); CAP.end();
    bool same = rc == 0 && g.size() == v.size();
    if (same) for (size_t i = 0; i < v.size(); i++) if (!biteq(g[i], v[i])) same = false;
    if (!same) hviol("C11", "vec-roundtrip:" + in.sol + ":" + n, "masa_get_vec after masa_set_vec(len " + std::to_string(len) + ") returned status " + std::to_string(rc) + " length " + std::to_string(g.size()));
    compare_selected(m, "C11", "set_vec-leak", "after masa_set_vec(\"" + n + "\")");
  }
  // the parameter-less fixture of the catalogue on its own handle: listing / display functions on an EMPTY parameter set must leave the
  // library's output stream usable (every later 'MASA ERROR' / 'MASA FATAL ERROR' line goes through it)
  void fixture_display() {
    if (m.sel.empty()) return;
    std::string keep = m.sel;
    init("fx", "masa_uninit");
    display();
    hist("masa_display_vec<" + P + ">() / masa_sanity_check on the parameter-less fixture");
    CAP.begin(); masa_display_vec<S>(); CAP.end();
    if (!std::cout.good()) hviol("C16", "stdout-stream-left-in-failed-state", "after masa_display_param / masa_display_vec on a solution without parameters std::cout is in a failed state: later error messages are lost");
    select(keep);
  }
  void display() {
    auto& in = m.cur();
    hist("masa_display_param<" + P + ">() on " + m.sel);
    CAP.begin(); masa_display_param<S>(); std::string out = CAP.end();
    CNT.display++;
    for (auto& l : split(out, '\n')) {
      size_t p = l.find(" is set to: ");
      if (p == std::string::npos) continue;
      std::string n = l.substr(0, p), v = l.substr(p + 12);
      auto it = in.sc.find(n);
      if (it == in.sc.end()) { hviol("C11", "display-unknown-name:" + in.sol, "masa_display_param shows '" + n + "' unknown to the model"); continue; }
      bool un = v == "Uninitialized";
      if (un != (it->second == marker<S>())) hviol("C11", "display-uninitialized-flag:" + in.sol, "masa_display_param shows '" + l + "' but the value is " + sval(it->second));
    }
  }
  // ---- evaluation (C10): result is a pure function of (instance parameters, arguments)
  std::string eval_bits(const Ev& e, const long double* a, int idx, std::string* outp = nullptr) {
    S as[4]; for (int i = 0; i < 4; i++) as[i] = (S)a[i];
    std::string b;
    // errno as an unrelated libm call anywhere in the process may have left it: the value must not depend on it
    { static const int EN[] = {0, 0, EDOM, ERANGE}; errno = EN[R->below(4)]; }
    // callback evaluators: half of the time with a callback that re-enters the library; some calls from the persistent second thread
    FP<S> fcb = (e.kind == KF && R->coin()) ? cbKre<S>() : cbK<S>();
    const bool hop = R->below(12) == 0;
    Outcome o = guarded([&] { S r; if (hop) WORKER.run([&] { r = call_ev<S>(e, as, idx, fcb); }); else r = call_ev<S>(e, as, idx, fcb); b = bits(r); }, false);
    { FpEnv now = fpenv_now(); if (!(now == g_fpenv_ops)) { hviol("C10", "floating-point-environment-changed:" + e.id, "an evaluator call changed the floating-point environment from " + g_fpenv_ops.str() + " to " + now.str() + " (later results of ANY evaluator depend on it)"); g_fpenv_ops = now; } }
    if (o.fatal) b = "FATAL" + std::to_string(o.code);
    if (o.abnormal) b = "ABNORMAL";
    if (outp) *outp = o.out;
    return b;
  }
  void eval(int force_ei = -1, const long double* force_pt = nullptr) {
    auto& in = m.cur();
    const SolSpec* sp = find_sol(in.sol);
    if (!sp) return;
    if (!kExceptions && in.sol == "sod_1d" && in.wild) return;
    // mostly provided evaluators, sometimes any overload of the API
    int ei;
    if (force_ei >= 0) ei = force_ei;
    else if (!sp->prov.empty() && R->below(5) != 0) { auto it = sp->prov.begin(); std::advance(it, R->below((int)sp->prov.size())); ei = ev_index(*it); }
    else ei = R->below((int)api().size());
    const long double* a = force_pt ? force_pt : POOL[R->below(32)];
    int idx = -999;
    // half of the time: repeat a call already made on these parameters (after arbitrary other calls in between)
    auto& rc = m.recent[m.sel];
    if (force_ei < 0 && !rc.empty() && R->coin()) { const EvalRec& r0 = rc[(size_t)R->below((int)rc.size())]; ei = r0.ev; idx = r0.idx; for (auto& pp : POOL) if (pp[0] == r0.a[0] && pp[1] == r0.a[1] && pp[2] == r0.a[2] && pp[3] == r0.a[3]) a = pp; }
    const Ev& e = api()[ei];
    if (idx == -999) idx = (e.kind == KI) ? 1 + R->below(std::max(1, e.n >= 4 ? 3 : e.n)) : (e.kind == KK ? R->below(7) : 0);
    hist("masa_eval_" + e.id + "<" + P + ">(pool point, idx " + std::to_string(idx) + ") on " + m.sel + ":" + in.sol);
    std::string b = eval_bits(e, a, idx);
    CNT.evals++;
    std::string key = P + "|" + m.sel + "|" + std::to_string(in.version) + "|" + e.id + "|" + (force_pt ? "far" + jnum(a[0]) : std::to_string((int)(a - POOL[0]) / 4)) + "|" + std::to_string(idx);
    auto it = seen.find(key);
    if (it == seen.end()) { seen[key] = b; LOG_distinct_keys++; }
    else {
      CNT.repeats++;
      if (it->second != b)
        hviol("C10", "evaluation-not-repeatable:" + in.sol + ":" + e.id, "the same call on the same parameters returned " + b + " now and " + it->second + " earlier in this history",
              JObj().str("solution", in.sol).str("evaluator", e.id).str("now_bits", b).str("earlier_bits", it->second).done());
    }
    m.recent[m.sel].push_back(EvalRec{ei, {a[0], a[1], a[2], a[3]}, idx, b});
    if (m.recent[m.sel].size() > 24) m.recent[m.sel].erase(m.recent[m.sel].begin());
    // evaluating never changes a parameter
    compare_selected(m, "C10", "evaluator-wrote-parameter:" + e.id, "after masa_eval_" + e.id);
    if (in.sol == "radiation_integrated_intensity" && b.compare(0, 5, "FATAL") != 0 && b != "ABNORMAL") radiation_reference(in, e, a, b);
  }
  // C11 "evaluators use the values last set", for the solution whose parameters are vectors: the documented sums over ALL
  // gaussians of the vectors the model holds (source: sum amp_i exp(-(x-mean_i)^2/(2 sd_i^2)); exact: sum amp_i (Phi((x-mean_i)/sd_i) - Phi(-mean_i/sd_i)),
  // Phi(t) = (1 + erf t)/2 as radiation.cpp documents it), evaluated in long double
  void radiation_reference(const Inst<S>& in, const Ev& e, const long double* a, const std::string& libbits) {
    if (e.id != "source_u/S1" && e.id != "exact_u/S1") return;
    auto am = in.vec.find("vec_amp"), me = in.vec.find("vec_mean"), sd = in.vec.find("vec_stdev");
    if (am == in.vec.end() || me == in.vec.end() || sd == in.vec.end()) return;
    size_t n = am->second.size();
    if (n == 0 || me->second.size() != n || sd->second.size() != n) return;   // unequal lengths: the library's own warning path, not judged here
    S xs = (S)a[0];
    long double x = (long double)xs, ref = 0, mag = 0;
    if (e.id == "exact_u/S1" && !(x > 0)) return;
    for (size_t i = 0; i < n; i++) {
      long double A = (long double)am->second[i], M = (long double)me->second[i], D = (long double)sd->second[i], t;
      if (e.id == "source_u/S1") t = A * expl(-(x - M) * (x - M) / (2 * D * D));
      else t = A * (0.5L * (1 + erfl((x - M) / D)) - 0.5L * (1 + erfl(-M / D)));
      ref += t; mag += fabsl(e.id == "source_u/S1" ? t : A);
    }
    if (!std::isfinite(ref) || !std::isfinite(mag)) return;
    S lib; { S as[4]; for (int i = 0; i < 4; i++) as[i] = (S)a[i]; CAP.begin(); lib = call_ev<S>(e, as, 0, cbK<S>()); CAP.end(); }
    CNT.radiation_refs++;
    long double tol = (sizeof(S) == 8 ? 1e-11L : 1e-14L) * (mag + fabsl(ref)) + 1e-300L;
    if (!(fabsl((long double)lib - ref) <= tol))
      hviol("C11", "evaluator-ignores-vector-values:" + e.id, "radiation " + e.id + " returned " + sval(lib) + " (" + libbits + ") but the sum over all " + std::to_string(n) + " gaussians of the vectors last set is " + jnum(ref),
            JObj().str("evaluator", e.id).num("x", x).num("library", (long double)lib).num("reference", ref).num("n_gaussians", (long long)n).num("no_gauss", (long double)(in.sc.count("no_gauss") ? in.sc.at("no_gauss") : S(0))).done());
  }
  // twin-handle reproduction: a fresh instance given the same parameters reproduces the logged bits
  void twin() {
    if (m.sel.empty()) return;
    std::string src = m.sel;
    Inst<S> in = m.cur();
    std::vector<EvalRec> recs = m.recent[src];
    if (recs.empty()) return;
    if (!kExceptions && in.sol == "sod_1d" && in.wild) return;
    init("twin", in.sol);
    hist("copy parameters of '" + src + "' onto 'twin'");
    for (auto& kv : in.sc) { CAP.begin(); masa_set_param<S>(kv.first, kv.second); CAP.end(); m.cur().sc[kv.first] = kv.second; }
    for (auto& kv : in.vec) { std::vector<S> v = kv.second; CAP.begin(); masa_set_vec<S>(kv.first, v); CAP.end(); m.cur().vec[kv.first] = v; }
    m.cur().version = next_version(); m.cur().wild = in.wild;
    compare_selected(m, "C11", "twin-copy", "after copying all parameters onto a fresh handle");
    for (auto& r : recs) {
      const Ev& e = api()[r.ev];
      std::string b = eval_bits(e, r.a, r.idx);
      CNT.twin++;
      if (b != r.bits)
        hviol("C10", "evaluation-depends-on-history:" + in.sol + ":" + e.id, "a fresh handle with identical parameters returned " + b + " where handle '" + src + "' returned " + r.bits,
              JObj().str("solution", in.sol).str("evaluator", e.id).str("fresh_bits", b).str("history_bits", r.bits).done());
      Snap<S> s = observe<S>();   // keep the twin in step with the model even if an evaluator wrote a parameter (reported elsewhere)
      m.cur().sc = s.sc; m.cur().vec = s.vec;
    }
    select(src);
  }
  // ---- fatal paths (C16) in the middle of a session
  void fatal_op() {
    int kind = R->below(3);
    std::string what;
    std::function<void()> f;
    // unknown handles of every sort order relative to the registered ones: fresh names, near-misses of live handles (case flip,
    // proper prefix, one more character, normalised spelling)
    std::string uh = "no-such-handle-" + std::to_string(R->below(1000));
    if (!m.h.empty() && R->below(3) != 0) {
      auto hit_ = m.h.begin(); std::advance(hit_, R->below((int)m.h.size()));
      std::string base = hit_->first;
      switch (R->below(5)) {
        case 0: uh = base.substr(0, base.size() - 1); break;
        case 1: uh = base + "_"; break;
        case 2: uh = base; uh[0] = (char)(islower(uh[0]) ? toupper(uh[0]) : tolower(uh[0])); break;
        case 3: uh = "!" + base; break;
        default: uh = "~" + base; break;
      }
      if (m.h.count(uh) || uh.empty()) uh = "no-such-handle";
    }
    // unknown solution names of several shapes: unrelated, one character too many, a catalogue name with a byte's top bit set or with
    // its last character changed, the empty string
    std::string us = "no_such_solution";
    {
      std::string base = SOLS[(size_t)R->below((int)SOLS.size())];
      switch (R->below(7)) {
        case 5: us = base; us.insert((size_t)R->below((int)base.size() + 1), 1, '\0'); us += "x"; break;   // a std::string with an embedded NUL is not the name
        case 0: us = base + "_"; break;
        case 1: us = "x" + base; break;
        case 2: { size_t p = (size_t)R->below((int)base.size()); us = base; us[p] = (char)((unsigned char)us[p] | 0x80); break; }
        case 3: us = base; us[us.size() - 1] = us[us.size() - 1] == 'q' ? 'p' : 'q'; break;
        case 4: us = ""; break;
        default: break;
      }
      for (auto& s0 : SOLS) if (s0 == us) us = "no_such_solution";
    }
    if (kind == 0) { what = "masa_select_mms<" + P + ">(\"" + uh + "\") [unknown handle]"; f = [uh] { masa_select_mms<S>(uh); }; }
    else if (kind == 1) { std::string h = rand_handle(); what = "masa_init<" + P + ">(\"" + h + "\",\"" + jesc(us) + "\") [unknown solution]"; f = [h, us] { masa_init<S>(h, us); }; }
    else { std::string h = "fresh-" + std::to_string(R->below(1000)); what = "masa_init<" + P + ">(\"" + h + "\",\"" + jesc(us) + "\") [unknown solution, new handle]"; f = [h, us] { masa_init<S>(h, us); }; }
    hist(what);
    Outcome o = guarded(f, true);
    if (!o.fatal || o.abnormal) { hviol("C16", "misuse-not-fatal", what + " did not end in a fatal error" + (o.abnormal ? " (" + o.what + ")" : "")); }
    else {
      if (o.code != 1) hviol("C16", "fatal-code-not-1", what + " reported code " + std::to_string(o.code));
      if (o.out.find("MASA FATAL ERROR") == std::string::npos) hviol("C16", "fatal-without-message", what + " printed no 'MASA FATAL ERROR': " + o.out.substr(0, 80));
      CNT.fatal_ok++;
    }
    // state exactly as before, library still usable (in the exit() build the failing call ran in a child: the parent must be untouched too)
    if (!m.sel.empty()) {
      compare_identity(m, "C16", "after a caught fatal error");
      compare_selected(m, "C16", "state-changed-by-failed-call", "after a caught fatal error");
    }
  }
  void checkpoint() {
    if (m.sel.empty()) return;
    std::string keep = m.sel;
    hist("checkpoint<" + P + ">: visit every handle");
    for (auto& kv : m.h) {
      CAP.begin(); masa_select_mms<S>(kv.first); CAP.end();
      m.sel = kv.first;
      compare_selected(m, "C12", "isolation", "checkpoint: handle '" + kv.first + "'");
    }
    CAP.begin(); masa_select_mms<S>(keep); CAP.end();
    m.sel = keep;
    compare_identity(m, "C12", "checkpoint");
    CNT.checkpoints++;
  }
  std::map<std::string, std::string> seen;
  long LOG_distinct_keys = 0;
};

