// C17 monitor: the extern "C" interface is a faithful view of the C++ <double> interface. C and C++ calls are
// interleaved on the same handles of one random history; after every C-side mutation the C++ side is compared with the
// sequential model, and every wrapper's result is compared bit for bit with the C++ <double> call it stands for.
#include "ops.hpp"
#include <cstring>
#include <cmath>

// ---- C entry points (weak: a wrapper that disappeared is a violation at run time, not a link failure)
extern "C" {
#define CW_S1(n) double n(double) __attribute__((weak));
#define CW_S2(n) double n(double, double) __attribute__((weak));
#define CW_S3(n) double n(double, double, double) __attribute__((weak));
#define CW_S4(n) double n(double, double, double, double) __attribute__((weak));
#define CW_I2(n) double n(double, double, int) __attribute__((weak));
#define CW_I3(n) double n(double, double, double, int) __attribute__((weak));
#define CW_I4(n) double n(double, double, double, double, int) __attribute__((weak));
#define CW_S(cn, ev, N) CW_S##N(cn)
#define CW_I(cn, ev, N) CW_I##N(cn)
#define CW_F(cn, ev) double cn(double, double (*)(double)) __attribute__((weak));
#include "spec/cw_table.def"
#undef CW_S
#undef CW_I
#undef CW_F
int masa_init(const char*, const char*) __attribute__((weak));
int masa_select_mms(const char*) __attribute__((weak));
int masa_list_mms() __attribute__((weak));
int masa_purge_default_param() __attribute__((weak));
int masa_init_param() __attribute__((weak));
int masa_sanity_check() __attribute__((weak));
int masa_display_param() __attribute__((weak));
int masa_display_array() __attribute__((weak));
int masa_get_name(char*) __attribute__((weak));
int masa_get_dimension(int*) __attribute__((weak));
void masa_set_param(const char*, double) __attribute__((weak));
double masa_get_param(const char*) __attribute__((weak));
void masa_set_array(const char*, int*, double*) __attribute__((weak));
int masa_get_array(const char*, int*, double*) __attribute__((weak));
}

struct CW { std::string cname, evname; Kind kind; int n; void* fn; };
static std::vector<CW> wrappers() {
  std::vector<CW> v;
#define CW_S(cn, ev, N) v.push_back(CW{#cn, #ev, KS, N, (void*)&::cn});
#define CW_I(cn, ev, N) v.push_back(CW{#cn, #ev, KI, N, (void*)&::cn});
#define CW_F(cn, ev) v.push_back(CW{#cn, #ev, KF, 1, (void*)&::cn});
#include "spec/cw_table.def"
#undef CW_S
#undef CW_I
#undef CW_F
  return v;
}

static double call_c(const CW& w, const double* a, int idx, double (*fp)(double)) {
  void* f = w.fn;
  switch (w.kind) {
    case KS:
      switch (w.n) {
        case 1: return ((double (*)(double))f)(a[0]);
        case 2: return ((double (*)(double, double))f)(a[0], a[1]);
        case 3: return ((double (*)(double, double, double))f)(a[0], a[1], a[2]);
        default: return ((double (*)(double, double, double, double))f)(a[0], a[1], a[2], a[3]);
      }
    case KI:
      switch (w.n) {
        case 2: return ((double (*)(double, double, int))f)(a[0], a[1], idx);
        case 3: return ((double (*)(double, double, double, int))f)(a[0], a[1], a[2], idx);
        default: return ((double (*)(double, double, double, double, int))f)(a[0], a[1], a[2], a[3], idx);
      }
    case KF: return ((double (*)(double, double (*)(double)))f)(a[0], fp);
    default: break;
  }
  harness_fail("bad wrapper table entry");
}

// a K_eq callback that consults the library through the C entry points before returning its constant
static double cb_uses_c_api(double) { volatile double g = ::masa_get_param("u_0"); (void)g; int d = 0; ::masa_get_dimension(&d); return 2.5; }
static void on_alarm(int) {
  // the C entry point did not return: written with async-signal-safe calls only, then the process ends (run.py reports the crash context)
  const char msg[] = "C entry point did not return within 20 s (callback using the C API?)\n";
  ssize_t w_ = write(2, msg, sizeof msg - 1); (void)w_;
  vh::crash_now("C entry point did not return within 20 s while its callback used the C interface");
}
static long n_eval = 0, n_store = 0, n_status = 0, n_array = 0, n_name = 0;
static const char* PROP = "C17";

struct CSide {
  Model<double>& m; Ops<double>& o;
  std::vector<CW> W;
  CSide(Model<double>& mm, Ops<double>& oo) : m(mm), o(oo), W(wrappers()) {}

  void c_init() {
    std::string h = rand_handle(), sol = pick_sol();
    hist("C masa_init(\"" + h + "\",\"" + sol + "\")");
    CAP.begin(); int rc = ::masa_init(h.c_str(), sol.c_str()); CAP.end();
    if (rc != 0) hviol(PROP, "c-init-status", "C masa_init returned " + std::to_string(rc));
    o.learn_after_init(h, sol);
    compare_identity(m, PROP, "after C masa_init");
  }
  void c_select() {
    auto it = m.h.begin(); std::advance(it, R->below((int)m.h.size()));
    hist("C masa_select_mms(\"" + it->first + "\")");
    CAP.begin(); ::masa_select_mms(it->first.c_str()); CAP.end();
    m.sel = it->first;
    compare_identity(m, PROP, "after C masa_select_mms");
    compare_selected(m, PROP, "c-select", "after C masa_select_mms(\"" + it->first + "\")");
  }
  void c_set_get() {
    std::string n = o.pick_name(); if (n.empty()) return;
    auto& in = m.cur();
    double v = draw_value<double>(in.sc0[n], false);
    // a third of the writes are a NEIGHBOUR of the value currently stored (one ulp, relative 1e-15 ... 1e-5, the other sign, the other zero):
    // a write that is "redundant" up to a tolerance must still be stored bit for bit (seeded C17-m11)
    if (R->below(3) == 0 && in.sc.count(n)) {
      const double cur = in.sc[n];
      static const double REL[] = {1e-15, 4e-13, 4e-11, 9e-11, 1e-9, 1e-7, 1e-5};
      double w = cur;
      switch (R->below(6)) {
        case 0: w = std::nextafter(cur, R->coin() ? INFINITY : -INFINITY); break;
        case 1: case 2: w = cur * (1 + (R->coin() ? 1 : -1) * REL[R->below(7)]); break;
        case 3: w = -cur; break;                                   // same magnitude, other sign (and -0.0 over +0.0)
        case 4: w = (cur == 0) ? (std::signbit(cur) ? 0.0 : -0.0) : cur + (R->coin() ? 1 : -1) * std::fabs(cur) * 0x1p-52; break;
        case 5: w = (cur == 0) ? (R->coin() ? 5e-324 : -1e-300) : cur * (1 + 0x1p-40); break;
      }
      if (std::isfinite(w) && !biteq(w, cur)) { v = w; LOG.count("neighbour_writes(value within 1e-5 relative of the stored one)", 1); }
    }
    n_store++;
    if (R->coin()) {
      hist("C masa_set_param(\"" + n + "\") then C++ masa_get_param on " + m.sel + ":" + in.sol);
      CAP.begin(); ::masa_set_param(n.c_str(), v); CAP.end();
      in.sc[n] = v; in.version = next_version(); m.recent[m.sel].clear();
      CAP.begin(); double b = masa_get_param<double>(n); CAP.end();
      if (!biteq(b, v)) hviol(PROP, "c-set-not-visible-to-cxx", "C masa_set_param(\"" + n + "\"," + sval(v) + ") but C++ masa_get_param returns " + sval(b));
    } else {
      hist("C++ masa_set_param(\"" + n + "\") then C masa_get_param on " + m.sel + ":" + in.sol);
      CAP.begin(); masa_set_param<double>(n, v); CAP.end();
      in.sc[n] = v; in.version = next_version(); m.recent[m.sel].clear();
      CAP.begin(); double b = ::masa_get_param(n.c_str()); CAP.end();
      if (!biteq(b, v)) hviol(PROP, "cxx-set-not-visible-to-c", "C++ masa_set_param(\"" + n + "\"," + sval(v) + ") but C masa_get_param returns " + sval(b));
    }
    compare_selected(m, PROP, "c-set-leak", "after set through the C/C++ pair");
    // unknown name through C: -20 like the C++ call
    if (R->below(6) == 0) {
      std::string bn = o.bad_name();
      CAP.begin(); double g = ::masa_get_param(bn.c_str()); CAP.end();
      CAP.begin(); double g2 = masa_get_param<double>(bn); CAP.end();
      if (!biteq(g, g2)) hviol(PROP, "c-get-unknown-differs", "C masa_get_param of unknown name returned " + sval(g) + ", C++ " + sval(g2));
    }
  }
  void c_arrays() {
    auto& in = m.cur();
    std::string n = o.pick_name(true);
    n_array++;
    if (n.empty() || R->below(5) == 0) {
      // unknown array name: status of the C++ call is 1
      std::string bn = o.bad_name(true);
      std::vector<double> tmp; CAP.begin(); int want = masa_get_vec<double>(bn, tmp); CAP.end();
      double* buf = (double*)malloc(sizeof(double) * 1); int len = -5;
      hist("C masa_get_array(\"" + bn + "\") [unknown array] on " + m.sel + ":" + in.sol);
      CAP.begin(); int rc = ::masa_get_array(bn.c_str(), &len, buf); CAP.end();
      free(buf);
      n_status++;
      if (rc != want) hviol(PROP, "c-get_array-status-constant", "C masa_get_array of an unknown array returned " + std::to_string(rc) + ", the C++ call reports " + std::to_string(want));
      compare_selected(m, PROP, "c-array-unknown-changed-state", "after C masa_get_array of an unknown array");
      return;
    }
    int len = R->below(4) == 0 ? R->below(3) : R->below(33);   // lengths 0, 1, 2 often: the empty array is a value like any other
    double* src = (double*)malloc(sizeof(double) * (size_t)std::max(len, 1));   // exact size: ASan sees any overrun
    std::vector<double> v((size_t)len);
    for (int i = 0; i < len; i++) { v[(size_t)i] = (double)R->uni(-3.0L, 3.0L); src[i] = v[(size_t)i]; }
    if (R->coin()) {
      hist("C masa_set_array(\"" + n + "\",n=" + std::to_string(len) + ") then C++ masa_get_vec on " + m.sel + ":" + in.sol);
      int nn = len;
      CAP.begin(); ::masa_set_array(n.c_str(), &nn, src); CAP.end();
      in.vec[n] = v; in.version = next_version(); m.recent[m.sel].clear();
      std::vector<double> g; CAP.begin(); masa_get_vec<double>(n, g); CAP.end();
      bool same = g.size() == v.size(); if (same) for (size_t i = 0; i < v.size(); i++) if (!biteq(g[i], v[i])) same = false;
      if (!same) hviol(PROP, "c-set_array-differs", "after C masa_set_array(n=" + std::to_string(len) + ") the C++ vector has length " + std::to_string(g.size()) + " / different contents");
    } else {
      hist("C++ masa_set_vec(\"" + n + "\",len " + std::to_string(len) + ") then C masa_get_array on " + m.sel + ":" + in.sol);
      CAP.begin(); masa_set_vec<double>(n, v); CAP.end();
      in.vec[n] = v; in.version = next_version(); m.recent[m.sel].clear();
      double* dst = (double*)malloc(sizeof(double) * (size_t)std::max(len, 1));
      // *n is an output: whatever it holds on entry (a stale length from an earlier query, 0, a negative number) must not matter
      static const int ENTRY[] = {-1, 0, 1, 2, 7, 25, 1000};
      int nn = R->coin() ? ENTRY[R->below(7)] : (len > 1 ? 1 + R->below(len - 1) : len + 3);
      memset(dst, 0x5a, sizeof(double) * (size_t)std::max(len, 1));
      CAP.begin(); int rc = ::masa_get_array(n.c_str(), &nn, dst); CAP.end();
      bool same = nn == len; if (same) for (int i = 0; i < len; i++) if (!biteq(dst[i], v[(size_t)i])) same = false;
      if (!same || rc != 0) hviol(PROP, "c-get_array-differs", "C masa_get_array returned status " + std::to_string(rc) + " length " + std::to_string(nn) + " for a vector of length " + std::to_string(len));
      free(dst);
    }
    free(src);
    compare_selected(m, PROP, "c-array-leak", "after array transfer through the C/C++ pair");
  }
  // the C status is the C++ status whatever state standard output is in (here: /dev/full, every write fails)
  void c_status_bad_stdout() {
    fflush(stdout); std::cout.flush();
    int keep = dup(1), full = open("/dev/full", O_WRONLY);
    if (keep < 0 || full < 0) return;
    hist("status of the printing C entry points with stdout on /dev/full, on " + m.sel + ":" + m.cur().sol);
    dup2(full, 1);
    int c1 = ::masa_list_mms(), x1 = masa_list_mms<double>();
    int c2 = ::masa_display_param(), x2 = masa_display_param<double>();
    int c3 = ::masa_display_array(), x3 = masa_display_vec<double>();
    int c4 = ::masa_sanity_check(), x4 = masa_sanity_check<double>();
    std::cout.flush(); fflush(stdout);
    dup2(keep, 1); close(keep); close(full);
    std::cout.clear(); clearerr(stdout);
    n_status += 4;
    LOG.count("status_comparisons_with_unwritable_stdout", 4);
    if (c1 != x1 || c2 != x2 || c3 != x3 || c4 != x4)
      hviol(PROP, "c-status-differs-with-unwritable-stdout", "with stdout unwritable the C entry points list_mms/display_param/display_array/sanity_check returned " + std::to_string(c1) + "," + std::to_string(c2) + "," +
            std::to_string(c3) + "," + std::to_string(c4) + ", the C++ <double> calls " + std::to_string(x1) + "," + std::to_string(x2) + "," + std::to_string(x3) + "," + std::to_string(x4));
  }
  void c_name_dim() {
    n_name++;
    char* buf = (char*)malloc(128);
    memset(buf, 'Z', 127); buf[127] = 0;    // a valid C string of sentinels
    hist("C masa_get_name(buf) on " + m.sel + ":" + m.cur().sol);
    CAP.begin(); int rc = ::masa_get_name(buf); CAP.end();
    std::string cxx; masa_get_name<double>(&cxx);
    if (rc != 0 || std::string(buf) != cxx)
      hviol(PROP, "c-get_name-not-written", "C masa_get_name left \"" + std::string(buf).substr(0, 20) + "...\" in the caller's buffer; the C++ name is \"" + cxx + "\"");
    free(buf);
    int dc = -3, dx = -4; ::masa_get_dimension(&dc); masa_get_dimension<double>(&dx);
    if (dc != dx) hviol(PROP, "c-get_dimension-differs", "C masa_get_dimension gives " + std::to_string(dc) + ", C++ " + std::to_string(dx));
  }
  void c_status() {
    auto& in = m.cur();
    n_status++;
    int k = R->below(5);
    if (k == 4) { c_status_bad_stdout(); return; }
    if (k == 0) {
      // sanity_check in whatever state the history has reached (non-zero after purge / empty vectors)
      CAP.begin(); int want = masa_sanity_check<double>(); CAP.end();
      hist("C masa_sanity_check() on " + m.sel + ":" + in.sol + " (C++ reports " + std::to_string(want) + ")");
      CAP.begin(); int rc = ::masa_sanity_check(); CAP.end();
      if (rc != want) hviol(PROP, "c-sanity_check-status-constant", "C masa_sanity_check returned " + std::to_string(rc) + " where the C++ call reports " + std::to_string(want));
      if (want != 0) LOG.count("nonzero_status_states", 1);
    } else if (k == 1) {
      if (in.sol == "sod_1d" && !kExceptions) return;
      hist("C masa_purge_default_param() on " + m.sel + ":" + in.sol);
      CAP.begin(); ::masa_purge_default_param(); CAP.end();
      for (auto& kv : in.sc) kv.second = marker<double>();
      in.version = next_version(); in.wild = true; m.recent[m.sel].clear();
      compare_selected(m, PROP, "c-purge", "after C masa_purge_default_param");
    } else if (k == 2) {
      hist("C masa_init_param() on " + m.sel + ":" + in.sol);
      CAP.begin(); int rc = ::masa_init_param(); CAP.end();
      in.sc = in.sc0; in.vec = in.vec0; in.version = next_version(); in.wild = false; m.recent[m.sel].clear();
      if (rc != 0) hviol(PROP, "c-init_param-status", "C masa_init_param returned " + std::to_string(rc) + " on " + in.sol);
      compare_selected(m, PROP, "c-init_param", "after C masa_init_param");
    } else {
      // output-only wrappers print what the C++ calls print
      CAP.begin(); masa_display_param<double>(); std::string a1 = CAP.end();
      CAP.begin(); ::masa_display_param(); std::string a2 = CAP.end();
      CAP.begin(); masa_display_vec<double>(); std::string b1 = CAP.end();
      CAP.begin(); int rb = ::masa_display_array(); std::string b2 = CAP.end();
      CAP.begin(); masa_list_mms<double>(); std::string c1 = CAP.end();
      CAP.begin(); ::masa_list_mms(); std::string c2 = CAP.end();
      hist("C display_param/display_array/list_mms vs C++");
      if (a1 != a2 || b1 != b2 || c1 != c2 || rb != 0) hviol(PROP, "c-display-differs", "C display/list wrappers print something else than the C++ calls");
    }
  }
  // the fixture whose init_var reports errors: the C status must be the C++ status
  void fixture_status() {
    hist("masa_init(\"fx\",\"masa_test_function\"); status of masa_init_param through both interfaces");
    CAP.begin(); masa_init<double>("fx", "masa_test_function"); CAP.end();
    CAP.begin(); int want = masa_init_param<double>(); CAP.end();
    CAP.begin(); int rc = ::masa_init_param(); CAP.end();
    n_status++;
    if (want == 0) harness_fail("fixture masa_test_function no longer reports an init error; cannot observe a non-zero status");
    LOG.count("nonzero_status_states", 1);
    if (rc != want) hviol(PROP, "c-init_param-status-constant", "C masa_init_param returned " + std::to_string(rc) + " where the C++ call reports " + std::to_string(want) + " (masa_test_function fixture)");
    // the fixture is not part of the model: replace it by a real solution right away
    o.init("fx", "euler_1d");
  }
  void c_evals(int count) {
    auto& in = m.cur();
    if (!kExceptions && in.sol == "sod_1d" && in.wild) return;
    const SolSpec* sp = find_sol(in.sol);
    for (int k = 0; k < count; k++) {
      // prefer wrappers of evaluators the solution provides
      const CW* w = &W[(size_t)R->below((int)W.size())];
      if (sp && R->below(4) != 0)
        for (int t = 0; t < 30; t++) { const CW& c = W[(size_t)R->below((int)W.size())]; std::string id = c.evname + "/" + (c.kind == KS ? "S" : c.kind == KI ? "I" : "F") + std::to_string(c.n); if (sp->prov.count(id)) { w = &c; break; } }
      LOG.distinct("wrappers_called", w->cname);
      if (!w->fn) { hviol(PROP, "wrapper-missing:" + w->cname, "the library no longer defines " + w->cname); continue; }
      std::string id = w->evname + "/" + (w->kind == KS ? "S" : w->kind == KI ? "I" : "F") + std::to_string(w->n);
      int ei = ev_index(id);
      if (ei < 0) harness_fail("wrapper table names unknown C++ overload " + id);
      const long double* p = POOL[R->below(32)];
      double a[4] = {(double)p[0], (double)p[1], (double)p[2], (double)p[3]};
      int idx = w->kind == KI ? R->below(w->n + 2) : 0;
      hist(w->cname + " vs masa_eval_" + id + "<double> on " + m.sel + ":" + in.sol);
      // callback wrappers: half of the time with a callback that itself uses the C interface (reads a parameter, asks for the dimension)
      // before returning; a call that does not come back within 20 s (they take microseconds) is reported, not waited for
      double (*fcb)(double) = (w->kind == KF && R->coin()) ? cb_uses_c_api : cbK_d;
      if (fcb == cb_uses_c_api) { LOG.count("c_evaluator_calls_with_a_callback_that_uses_the_c_api", 1); alarm(20); }
      CAP.begin(); double vc = call_c(*w, a, idx, fcb); std::string oc = CAP.end();
      alarm(0);
      CAP.begin(); double vx = call_ev<double>(api()[ei], a, idx, fcb); std::string ox = CAP.end();
      n_eval++;
      if (!biteq(vc, vx))
        hviol(PROP, "c-evaluator-differs:" + w->cname, w->cname + " returned " + sval(vc) + ", masa_eval_" + id + "<double> returned " + sval(vx) + " on " + in.sol,
              JObj().str("wrapper", w->cname).str("cxx", id).str("solution", in.sol).num("c", (long double)vc).num("cxx_value", (long double)vx).done());
      if (oc != ox) hviol(PROP, "c-evaluator-output-differs:" + w->cname, w->cname + " printed something else than the C++ call");
    }
    // cp_normal evaluators write x_bar (recorded under C10): keep the model in step
    Snap<double> s = observe<double>(); in.sc = s.sc; in.vec = s.vec;
  }
};

int main(int argc, char** argv) {
  LOG.open(getarg(argc, argv, "--out"));
  CAP.install();
  install_crash_handlers();
  signal(SIGALRM, on_alarm);
  uint64_t seed = strtoull(getarg(argc, argv, "--seed", "1").c_str(), 0, 10);
  int shard = atoi(getarg(argc, argv, "--shard", "0").c_str());
  long n = atol(getarg(argc, argv, "--steps", "2000").c_str());
  Rng r(seed, 41000 + (uint64_t)shard); R = &r;
  for (auto& s : catalogue()) if (!s.fixture) SOLS.push_back(s.name);
  // pool of 32 points: 16 in (0.1,1.9)^4, 8 in (-2,2)^4, 8 with coordinates spread over three decades 10^U(-3,0) (thin layers next to a wall / an axis)
  // and one coordinate exactly 0 in two of them; all double-representable so both precisions see the same arguments
  { int k = 0; for (auto& p : POOL) { for (auto& c : p) c = (long double)(double)(k < 16 ? r.uni(0.1L, 1.9L) : k < 24 ? r.uni(-2.0L, 2.0L) : powl(10.0L, r.uni(-3.0L, 0.0L))); if (k >= 30) p[r.below(4)] = 0; k++; }
    // eight of the generic points are copies of another pool point with exactly ONE coordinate changed (same place at another time, same x-y at another z, ...)
    for (int j = 0; j < 8; j++) { for (int c = 0; c < 4; c++) POOL[8 + j][c] = POOL[j % 4][c]; POOL[8 + j][j % 4] = (long double)(double)r.uni(0.1L, 1.9L); if (j >= 4) POOL[8 + j][3 - j % 4] = POOL[8 + j][j % 4]; } }
  g_allow_wild = false;
  Model<double> m; Ops<double> o(m); CSide c(m, o);
  for (auto& w : c.W) if (!w.fn) hviol(PROP, "wrapper-missing:" + w.cname, "the library no longer defines " + w.cname);
  struct { const char* n; void* f; } core[] = {{"masa_init", (void*)&::masa_init}, {"masa_select_mms", (void*)&::masa_select_mms}, {"masa_list_mms", (void*)&::masa_list_mms},
    {"masa_purge_default_param", (void*)&::masa_purge_default_param}, {"masa_init_param", (void*)&::masa_init_param}, {"masa_sanity_check", (void*)&::masa_sanity_check},
    {"masa_display_param", (void*)&::masa_display_param}, {"masa_display_array", (void*)&::masa_display_array}, {"masa_get_name", (void*)&::masa_get_name},
    {"masa_get_dimension", (void*)&::masa_get_dimension}, {"masa_set_param", (void*)&::masa_set_param}, {"masa_get_param", (void*)&::masa_get_param},
    {"masa_set_array", (void*)&::masa_set_array}, {"masa_get_array", (void*)&::masa_get_array}};
  for (auto& k : core) if (!k.f) harness_fail(std::string("C entry point missing: ") + k.n);
  c.c_init();
  for (long i = 0; i < n; i++) {
    int w = r.below(100);
    if (w < 6) c.c_init();
    else if (w < 10) o.init(rand_handle(), pick_sol());
    else if (w < 18) c.c_select();
    else if (w < 22) { auto it = m.h.begin(); std::advance(it, r.below((int)m.h.size())); o.select(it->first); }
    else if (w < 36) c.c_set_get();
    else if (w < 46) c.c_arrays();
    else if (w < 52) c.c_name_dim();
    else if (w < 62) c.c_status();
    else if (w < 63) c.fixture_status();
    else if (w < 66) o.set_vec();
    else if (w < 68) o.checkpoint();
    else c.c_evals(4);
  }
  o.checkpoint();
  LOG.count("steps", CNT.steps); LOG.count("c_vs_cxx_evaluator_comparisons", n_eval); LOG.count("store_cross_visibility_checks", n_store); LOG.count("status_comparisons", n_status);
  LOG.count("array_transfers", n_array); LOG.count("get_name_checks", n_name); LOG.count("snapshots_compared", CNT.snapshots);
  LOG.count("wrapper_table_size", (long long)c.W.size());
  flush_viol_counts();
  end_ok();
  return 0;
}
