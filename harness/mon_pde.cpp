// Numerical monitor (C01-C07, C09): drives the real evaluators with independently drawn parameter vectors
// and points and compares every value with the jet oracle (operator applied to the documented field).
#include "common.hpp"
#include "oracle/oracle.hpp"
#include <cfloat>
using namespace vh;
using namespace MASA;
using orc::EQ;

template <class S> struct Eps;
template <> struct Eps<double> { static constexpr double u = 0x1p-53; static constexpr const char* tag = "d"; };
template <> struct Eps<long double> { static constexpr double u = 0x1p-64; static constexpr const char* tag = "l"; };

static const double SEM_K = 1048576.0;   // 2^20: semantic tolerance in units of u*e
static double PREC_K_D = 64, PREC_K_L = 64;   // C09 constants (calibrated, see DESIGN sec. 5)

struct MaxStat { double max = 0; long n = 0; std::string where; };
static std::map<std::string, MaxStat> g_ratio;     // "<sol>|<ev>|<prec>" -> max |lib-ref|/(u e)
static std::map<std::string, MaxStat> g_dl;        // double vs long double
static long g_cmp = 0, g_skipped_branch = 0, g_nonfinite = 0, g_known = 0, g_dlcmp = 0, g_badidx = 0;
static std::set<std::string> g_emitted;            // violation keys already emitted in this shard (first witness is kept, the rest counted)
static std::map<std::string, long> g_viol_count;

static void viol_once(const std::string& prop, const std::string& key, const std::string& msg, const std::string& detail) {
  g_viol_count[prop + "|" + key]++;
  if (g_emitted.insert(prop + "|" + key).second) LOG.viol(prop, key, msg, detail);
}

static uint64_t strhash(const std::string& s) { uint64_t h = 1469598103934665603ULL; for (unsigned char c : s) { h ^= c; h *= 1099511628211ULL; } return h; }

template <class S> static long double ld(S v) { return (long double)v; }

static std::string point_json(const long double* x, int n) { std::vector<long double> v(x, x + n); return jarr(v); }
static std::string params_json(const std::map<std::string, long double>& p) { JObj o; for (auto& kv : p) o.num(kv.first, kv.second); return o.done(); }

// callbacks for the function-pointer evaluators live in orc_chem; the driver only needs to pass one through
namespace orc { FP<double> chem_cb_d(int k); FP<long double> chem_cb_l(int k); int chem_ncb(); void chem_select(Ctx& c, int k); }
template <class S> static FP<S> cb(int k);
template <> FP<double> cb<double>(int k) { return orc::chem_cb_d(k); }
template <> FP<long double> cb<long double>(int k) { return orc::chem_cb_l(k); }

template <class S>
static void run_solution(const orc::Sol& sol, const SolSpec& spec, uint64_t seed, long case0, long ncases, int npoints,
                         const std::set<std::string>& classes, bool dl_compare) {
  const std::string P = ST<S>::name();
  const double u = Eps<S>::u;
  const double precK = (sizeof(S) == 8) ? PREC_K_D : PREC_K_L;
  set_ctx("init:" + sol.name, "masa_init<" + P + ">(\"h\", \"" + sol.name + "\")");
  masa_init<S>("h", sol.name);
  if (dl_compare) masa_init<long double>("h", sol.name);
  std::vector<std::string> names = param_names<S>();
  std::vector<int> evs;
  for (auto& id : spec.prov) {
    std::string cls = id.substr(0, id.find('_'));
    if (!classes.count(cls)) continue;
    evs.push_back(ev_index(id));
  }
  for (long cs = case0; cs < case0 + ncases; cs++) {
    Rng r(seed, strhash(sol.name) * 1000003ULL + (uint64_t)cs * 2 + (sizeof(S) == 8 ? 0 : 1));
    orc::Draw dr;
    sol.draw(r, dr, names);
    for (auto& n : names) if (!dr.v.count(n)) harness_fail("generator for " + sol.name + " did not draw parameter " + n);
    std::map<std::string, long double> setv;
    orc::Ctx base; base.sol = sol.name; base.nx = sol.nargs;
    bool nontrivial = true; std::set<long double> seen;
    for (auto& n : names) {
      S val = (S)dr.v[n];
      masa_set_param<S>(n, val);
      if (dl_compare) masa_set_param<long double>(n, (long double)val);
      S back = masa_get_param<S>(n);
      setv[n] = (long double)back;
      base.P[n] = EQ::exact((orc::Q)back);
      if (back == 0 || !seen.insert(fabsl((long double)back)).second) nontrivial = false;
    }
    LOG.count("parameter_vectors", 1);
    if (nontrivial) LOG.count("parameter_vectors_all_distinct_nonzero", 1);
    int cbk = r.below(orc::chem_ncb());
    for (int pt = 0; pt < npoints; pt++) {
      long double xs[4] = {0, 0, 0, 0};
      sol.point(r, xs, sol.nargs);
      S a[4]; long double al[4];
      orc::Ctx c = base;
      for (int i = 0; i < sol.nargs; i++) { a[i] = (S)xs[i]; al[i] = (long double)a[i]; xs[i] = (long double)a[i]; c.x[i] = EQ::exact((orc::Q)a[i]); }
      orc::chem_select(c, cbk);
      sol.eval(c);
      if (c.near_branch) { g_skipped_branch++; continue; }
      for (int ei : evs) {
        const Ev& e = api()[ei];
        int dirs = (e.kind == KI) ? e.n : 1;
        if (e.kind == KI && sol.name == "navierstokes_4d_compressible_powerlaw") dirs = 3;  // spatial directions only
        for (int dir = 1; dir <= dirs; dir++) {
          std::string rid = e.id + (e.kind == KI ? "#" + std::to_string(dir) : "");
          auto it = c.out.find(rid);
          if (it == c.out.end() || !it->second.has) harness_fail("oracle for " + sol.name + " gives no reference for " + rid);
          const orc::Ref& ref = it->second;
          set_ctx("eval:" + sol.name + ":" + e.id, "masa_eval_" + e.name + "<" + P + "> on " + sol.name + " at " + point_json(xs, sol.nargs));
          CAP.begin();
          S lib = call_ev<S>(e, a, dir, cb<S>(cbk));
          std::string out = CAP.end();
          g_cmp++;
          std::string cls = e.id.substr(0, e.id.find('_'));
          std::string semprop = (cls == "grad") ? "C07" : sol.prop;
          double scale = std::max(ref.ref.e, orc::absd(ref.ref.v));
          auto detail = [&](double ratio) {
            return JObj().str("solution", sol.name).str("evaluator", rid).str("precision", P).raw("point", point_json(xs, sol.nargs))
                .num("library", ld(lib)).num("reference", (long double)ref.ref.v).num("abs_err", (long double)fabsq((orc::Q)lib - ref.ref.v))
                .num("scale_e", scale).num("ratio_in_units_of_u_e", ratio).num("case", cs).raw("params", params_json(setv)).str("stdout", out.substr(0, 200)).done();
          };
          if (!std::isfinite((long double)lib)) {
            g_nonfinite++;
            viol_once("C09", "nonfinite:" + sol.name + ":" + e.id, "evaluator returned NaN/inf on admissible input", detail(-1));
            viol_once(semprop, "nonfinite:" + sol.name + ":" + e.id, "evaluator returned NaN/inf on admissible input", detail(-1));
            continue;
          }
          if (!out.empty() && out.find("MASA") != std::string::npos)
            viol_once(semprop, "error-message:" + sol.name + ":" + e.id, "provided evaluator printed an error message", detail(-1));
          double err = orc::absd((orc::Q)lib - ref.ref.v);
          double ratio = scale > 0 ? err / (u * scale) : (err == 0 ? 0 : 1e300);
          bool sem_ok = ratio <= SEM_K;
          std::string matched_alt;
          double alt_ratio = ratio;
          if (ratio > precK) {
            for (auto& al_ : ref.alts) {
              double sc2 = std::max(al_.ref.e, orc::absd(al_.ref.v));
              double r2 = orc::absd((orc::Q)lib - al_.ref.v) / (u * std::max(sc2, scale));
              if (r2 <= SEM_K && !sem_ok) { matched_alt = al_.key; alt_ratio = r2; break; }
            }
          }
          if (!sem_ok) {
            if (!matched_alt.empty()) {
              g_known++;
              viol_once(semprop, matched_alt, "library matches the recorded deviation model, not the governing operator", detail(ratio));
              viol_once("C09", matched_alt, "library matches the recorded deviation model, not the governing operator", detail(ratio));
              ratio = alt_ratio;   // precision is then judged against the deviation model
            } else {
              viol_once(semprop, "mismatch:" + sol.name + ":" + e.id, "value differs from the reference far beyond roundoff", detail(ratio));
              viol_once("C09", "mismatch:" + sol.name + ":" + e.id, "value differs from the exact value far beyond roundoff", detail(ratio));
              continue;
            }
          }
          // precision regime (C09)
          MaxStat& ms = g_ratio[sol.name + "|" + e.id + "|" + Eps<S>::tag];
          ms.n++;
          if (ratio > ms.max) { ms.max = ratio; }
          if (ratio > precK)
            viol_once("C09", "precision:" + sol.name + ":" + e.id + ":" + Eps<S>::tag, "error exceeds the working-precision bound K*u*e", detail(ratio));
          if (dl_compare) {
            long double libl = call_ev<long double>(e, al, dir, cb<long double>(cbk));
            double dd = (double)fabsl((long double)lib - libl);
            double r3 = scale > 0 ? dd / (0x1p-53 * scale) : (dd == 0 ? 0 : 1e300);
            g_dlcmp++;
            MaxStat& m2 = g_dl[sol.name + "|" + e.id];
            m2.n++; if (r3 > m2.max) m2.max = r3;
            if (r3 > 2 * PREC_K_D && matched_alt.empty())
              viol_once("C09", "double-vs-longdouble:" + sol.name + ":" + e.id, "double and long double interfaces disagree beyond double precision", detail(r3));
          }
          if (g_cmp <= 2) LOG.sample(detail(ratio));
        }
        // C07: direction index outside 1..dimension -> error value, independent of the point
        if (e.kind == KI && classes.count("grad") && pt < 4) {
          static const int BAD[] = {0, -1, -2, -3, INT32_MIN, INT32_MAX};
          int nd = spec.dim >= 4 ? 3 : spec.dim;
          int bad[9]; int nb = 0;
          for (int b : BAD) bad[nb++] = b;
          bad[nb++] = nd + 1; bad[nb++] = nd + 2; bad[nb++] = nd + 3;
          for (int k = 0; k < nb; k++) {
            set_ctx("eval:" + sol.name + ":" + e.id + ":badindex", "masa_eval_" + e.name + "<" + P + "> index " + std::to_string(bad[k]));
            CAP.begin();
            S lib = call_ev<S>(e, a, bad[k], nullptr);
            CAP.end();
            g_badidx++;
            bool ok = (sol.name == "navierstokes_4d_compressible_powerlaw") ? (lib != lib) : (lib == S(-1));
            if (!ok)
              viol_once("C07", "bad-index:" + sol.name + ":" + e.id, "direction index outside 1..dimension did not yield the error value",
                        JObj().str("solution", sol.name).str("evaluator", e.id).num("index", bad[k]).num("library", ld(lib)).raw("point", point_json(xs, sol.nargs)).done());
          }
        }
      }
      LOG.count("points", 0);
    }
  }
}

int main(int argc, char** argv) {
  LOG.open(getarg(argc, argv, "--out"));
  CAP.install();
  install_crash_handlers();
  uint64_t seed = strtoull(getarg(argc, argv, "--seed", "1").c_str(), 0, 10);
  long case0 = atol(getarg(argc, argv, "--case0", "0").c_str());
  long ncases = atol(getarg(argc, argv, "--cases", "10").c_str());
  int npoints = atoi(getarg(argc, argv, "--points", "8").c_str());
  std::string prec = getarg(argc, argv, "--prec", "d");
  bool dl = hasflag(argc, argv, "--dl");
  PREC_K_D = atof(getarg(argc, argv, "--kd", "64").c_str());
  PREC_K_L = atof(getarg(argc, argv, "--kl", "64").c_str());
  std::set<std::string> classes;
  for (auto& s : split(getarg(argc, argv, "--classes", "source,exact,grad"), ',')) classes.insert(s);
  for (auto& sn : split(getarg(argc, argv, "--sols"), ',')) {
    if (sn.empty()) continue;
    const orc::Sol* sol = orc::find(sn);
    const SolSpec* spec = find_sol(sn);
    if (!sol || !spec) harness_fail("no oracle/spec for solution " + sn);
    if (prec == "d") run_solution<double>(*sol, *spec, seed, case0, ncases, npoints, classes, dl);
    else run_solution<long double>(*sol, *spec, seed, case0, ncases, npoints, classes, false);
    LOG.distinct("solutions", sn);
  }
  LOG.count("comparisons", g_cmp);
  LOG.count("double_vs_longdouble_comparisons", g_dlcmp);
  LOG.count("bad_index_calls", g_badidx);
  LOG.count("skipped_near_branch", g_skipped_branch);
  LOG.count("nonfinite", g_nonfinite);
  LOG.count("matched_known_deviation", g_known);
  for (auto& kv : g_ratio) LOG.stat("ratio", JObj().str("k", kv.first).num("max", kv.second.max).num("n", kv.second.n).done());
  for (auto& kv : g_dl) LOG.stat("dl", JObj().str("k", kv.first).num("max", kv.second.max).num("n", kv.second.n).done());
  for (auto& kv : g_viol_count) LOG.stat("violcount", JObj().str("k", kv.first).num("n", kv.second).done());
  end_ok();
  return 0;
}
