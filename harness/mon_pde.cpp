// Numerical monitor (C01-C07, C09): drives the real evaluators with independently drawn parameter vectors
// and points and compares every value with the jet oracle (operator applied to the documented field).
#include "common.hpp"
#include "oracle/oracle.hpp"
#include <cfloat>
#include <cerrno>
using namespace vh;
using namespace MASA;
using orc::EQ;

template <class S> struct Eps;
template <> struct Eps<double> { static constexpr double u = 0x1p-53; static constexpr const char* tag = "d"; };
template <> struct Eps<long double> { static constexpr double u = 0x1p-64; static constexpr const char* tag = "l"; };

static const double SEM_K = 1048576.0;   // 2^20: semantic tolerance in units of u*e
static double PREC_K_D = 64, PREC_K_L = 64;   // C09 constants (calibrated, see DESIGN sec. 5)
// Structured inputs (special values such as exact zeros / equal parameters, incremental, default and partial-default vectors, points on or
// next to an axis) make whole groups of terms vanish, so the scale e shrinks while the expanded library expression still rounds its
// surviving cancellations: the calibrated constant of the generic regime does not transfer; these cases get their own, wider constant.
static double PREC_K_IRR = 256;

struct MaxStat { double max = 0; long n = 0; std::string where; };
static std::map<std::string, MaxStat> g_ratio;     // "<sol>|<ev>|<prec>" -> max |lib-ref|/(u e)
static std::map<std::string, MaxStat> g_dl;        // double vs long double
static std::map<std::string, MaxStat> g_ratio_irr; // same as g_ratio, structured inputs
static long g_ref_nonfinite = 0, g_loose_overflow = 0, g_worker_calls = 0;
static FpEnv g_fpenv0;
static long g_fd = 0, g_fd_inconclusive = 0; static bool fd_check = true;
static long g_cbchecks = 0, g_invchecks = 0;
static long g_cmp = 0, g_skipped_branch = 0, g_nonfinite = 0, g_known = 0, g_dlcmp = 0, g_badidx = 0;
static std::set<std::string> g_emitted;            // violation keys already emitted in this shard (first witness is kept, the rest counted)
static std::map<std::string, long> g_viol_count;

static void viol_once(const std::string& prop, const std::string& key, const std::string& msg, const std::string& detail) {
  g_viol_count[prop + "|" + key]++;
  if (g_emitted.insert(prop + "|" + key).second) LOG.viol(prop, key, msg, detail);
}

static uint64_t strhash(const std::string& s) { uint64_t h = 1469598103934665603ULL; for (unsigned char c : s) { h ^= c; h *= 1099511628211ULL; } return h; }

template <class S> static long double ld(S v) { return (long double)v; }

static std::string point_json(const long double* x, int n) { std::vector<long double> v(x, x + n); return jarr(v); }
static std::string params_json(const std::map<std::string, long double>& p) { JObj o; for (auto& kv : p) o.num(kv.first, kv.second); return o.done(); }

// callbacks for the function-pointer evaluators live in orc_chem; the driver only needs to pass one through
namespace orc { FP<double> chem_cb_d(int k); FP<long double> chem_cb_l(int k); int chem_ncb(); void chem_select(Ctx& c, int k); void chem_rec_reset(); int chem_calls(); long double chem_lastT(); }
template <class S> static FP<S> cb(int k);
template <> FP<double> cb<double>(int k) { return orc::chem_cb_d(k); }
template <> FP<long double> cb<long double>(int k) { return orc::chem_cb_l(k); }

template <class S>
static void run_solution(const orc::Sol& sol, const SolSpec& spec, uint64_t seed, long case0, long ncases, int npoints,
                         const std::set<std::string>& classes, bool dl_compare, const std::string& handle = "h", bool reselect = false) {
  const std::string P = ST<S>::name();
  const double u = Eps<S>::u;
  const double precK = (sizeof(S) == 8) ? PREC_K_D : PREC_K_L;
  set_ctx("init:" + sol.name, "masa_init<" + P + ">(\"" + handle + "\", \"" + sol.name + "\")");
  CAP.begin();
  if (reselect) masa_select_mms<S>(handle); else masa_init<S>(handle, sol.name);
  if (dl_compare) { if (reselect) masa_select_mms<long double>(handle); else masa_init<long double>(handle, sol.name); }
  CAP.end();
  std::vector<std::string> names = param_names<S>();
  std::vector<int> evs;
  for (auto& id : spec.prov) {
    std::string cls = id.substr(0, id.find('_'));
    if (!classes.count(cls)) continue;
    evs.push_back(ev_index(id));
  }
  long double prev_pt[4] = {0, 0, 0, 0}; bool have_prev = false;
  // defaults as the library reports them right after masa_init (not available when the handle is only re-selected)
  std::map<std::string, long double> defv;
  if (!reselect) for (auto& n : names) defv[n] = (long double)masa_get_param<S>(n);
  std::map<std::string, long double> setv;          // value last passed to masa_set_param (or reported after masa_init_param), per name
  orc::Ctx base; base.sol = sol.name; base.nx = sol.nargs;
  base.fields_only = !classes.count("source");
  bool loose_state = false, irregular_state = false;
  int prev_kind = 0;
  for (long cs = case0; cs < case0 + ncases; cs++) {
    Rng r(seed, strhash(sol.name) * 1000003ULL + (uint64_t)cs * 2 + (sizeof(S) == 8 ? 0 : 1));
    // case kinds: fresh (every parameter redrawn) | delta (1-3 parameters changed, the rest kept) | defaults (masa_init_param) |
    // partial (1-3 independent parameters back to their default values) | stretch (fresh, then groups of parameters scaled by powers of ten)
    int kind = 0;
    // ... | pair shift (two parameters moved by +d and -d, d a small integer: a change that leaves every sum of parameters unchanged;
    // always tried right after a default case, where all values are round numbers and the shift is exact)
    if (setv.size() == names.size()) { int m = r.below(17); kind = m < 7 ? 0 : m < 11 ? 1 : m < 12 ? 2 : m < 14 ? 3 : m < 16 ? 4 : 5; if (prev_kind == 2 && r.coin()) kind = 5;
      // ... | magic (one sign-free parameter set to a value the library uses as an in-band code: -20 'unknown name', -12345.67 'unset', -1.33 'unavailable', -1)
      // | storm (a long run of redundant writes so that the total number of writes since the last evaluation is exactly 2^8, 2^16 or 2^17)
      int m2 = r.below(12); if (m2 == 0) kind = 6; else if (m2 == 1) kind = 7; }
    if (kind == 3 && defv.empty()) kind = 1;
    if (kind == 4 && !sol.stretch) kind = 0;
    std::vector<std::pair<std::string, long double>> changes;
    std::string special, stretched;
    bool nontrivial = false;
    if (kind == 0 || kind == 4) {
      orc::Draw dr;
      sol.draw(r, dr, names);
      // a quarter of the fresh vectors carry special values (exactly 0, +-1, a small integer, two parameters equal, a zeroed family) where admissible
      if (kind == 0 && r.below(4) == 0) { orc::specialise(r, sol, dr, names, special); if (!special.empty()) LOG.count("parameter_vectors_with_special_values", 1); }
      if (kind == 4) { orc::stretch_draw(r, sol, dr, names, stretched); if (stretched.empty()) kind = 0; else LOG.count("parameter_vectors_stretched", 1); }
      for (auto& n : names) { if (!dr.v.count(n)) harness_fail("generator for " + sol.name + " did not draw parameter " + n); changes.push_back({n, dr.v[n]}); }
      nontrivial = true;
    } else if (kind == 1) {
      orc::Draw dr;
      sol.draw(r, dr, names);
      int k = 1 + r.below(3);
      for (int i = 0; i < k; i++) {
        const std::string& n = names[(size_t)r.below((int)names.size())];
        switch (orc::delta_kind_of(sol, n)) {
          case 1: changes.push_back({n, dr.v[n]}); break;
          case 2: changes.push_back({n, setv[n] * r.uni(-1.0L, 1.0L)}); break;
          case 3: changes.push_back({n, setv[n] * r.uni(1.0L, 1.5L)}); break;
          default: break;
        }
      }
      LOG.count("incremental_cases(1-3 parameters changed)", 1);
    } else if (kind == 2) {
      set_ctx("init_param:" + sol.name, "masa_init_param<" + P + ">()");
      CAP.begin();
      masa_init_param<S>();
      CAP.end();
      for (auto& n : names) {
        S v = masa_get_param<S>(n);
        setv[n] = (long double)v; base.P[n] = EQ::exact((orc::Q)v);
        if (dl_compare) masa_set_param<long double>(n, (long double)v);
        if (!defv.empty() && !biteq((S)defv[n], v))
          viol_once("C11", "init_param-restore:" + sol.name + ":" + n, "masa_init_param did not restore the value the parameter had right after masa_init",
                    JObj().str("solution", sol.name).str("parameter", n).num("after_init", defv[n]).num("after_init_param", (long double)v).done());
      }
      LOG.count("default_parameter_cases(masa_init_param)", 1);
    } else if (kind == 6) {
      orc::Draw dr;
      sol.draw(r, dr, names);
      std::vector<std::string> el;
      auto ok = sol.special_ok ? sol.special_ok : orc::default_special_ok;
      for (auto& n : names) if (ok(n) == 2 || (orc::delta_kind_of(sol, n) == 1 && dr.v[n] < 0)) el.push_back(n);   // negative values occur: the sign is free
      if (!el.empty()) {
        static const long double MAGIC[] = {-20.0L, -12345.67L, -1.33L, -1.0L, -12345.670000001L, 20.0L};
        changes.push_back({el[(size_t)r.below((int)el.size())], MAGIC[r.below(6)]});
        LOG.count("magic_value_cases", 1);
      }
    } else if (kind == 7) {
      // storm: handled below (after the ordinary change of one parameter has been chosen)
      orc::Draw dr;
      sol.draw(r, dr, names);
      for (int tries = 0; tries < 8 && changes.empty(); tries++) {
        const std::string& n = names[(size_t)r.below((int)names.size())];
        if (orc::delta_kind_of(sol, n) == 1) changes.push_back({n, dr.v[n]});
      }
      static const long TOTAL[] = {256, 65536, 65536, 131072};
      long total = TOTAL[r.below(4)] - (long)changes.size();
      const std::string& sn = names[(size_t)r.below((int)names.size())];
      S cur = (S)setv[sn];
      set_ctx("storm:" + sol.name, std::to_string(total) + " redundant masa_set_param<" + P + "> calls");
      for (long k = 0; k < total; k++) masa_set_param<S>(sn, cur);
      LOG.count("write_storm_cases", 1); LOG.count("redundant_parameter_writes", total);
    } else if (kind == 5) {
      std::vector<std::string> el;
      for (auto& n : names) if (orc::delta_kind_of(sol, n) == 1 && fabsl(setv[n]) >= 4) el.push_back(n);
      if (el.size() >= 2) {
        size_t i = (size_t)r.below((int)el.size()), j = (i + 1 + (size_t)r.below((int)el.size() - 1)) % el.size();
        static const long double D[] = {1, 2, 5, 20, 100, 0.5L};
        long double dmax = 0.2L * std::min(fabsl(setv[el[i]]), fabsl(setv[el[j]])), dd = D[r.below(6)];
        while (dd > dmax) dd /= 2;
        changes.push_back({el[i], setv[el[i]] - dd}); changes.push_back({el[j], setv[el[j]] + dd});
        LOG.count("pair_shift_cases", 1);
      }
    } else {
      int k = 1 + r.below(3);
      for (int i = 0; i < k; i++) {
        const std::string& n = names[(size_t)r.below((int)names.size())];
        if (orc::delta_kind_of(sol, n) == 1) changes.push_back({n, defv[n]});
      }
      LOG.count("partial_default_cases", 1);
    }
    prev_kind = kind;
    // gradient-only runs (C07 speaks of all parameters): one fresh case in twenty has a whole field identically zero (offset and amplitudes)
    if (kind == 0 && !classes.count("source") && !classes.count("exact") && r.below(20) == 0) {
      std::vector<std::string> pre;
      for (auto& n : names) { size_t us = n.rfind('_'); if (us != std::string::npos && us > 0 && n.rfind("a_", 0) != 0 && n.size() - us == 2 && n.back() == '0') pre.push_back(n.substr(0, us + 1)); }
      for (auto& n : names) if (n == "a_rho0" || n == "a_T0" || n == "a_u0") pre.push_back(n.substr(0, n.size() - 1));
      if (!pre.empty()) {
        const std::string& q = pre[(size_t)r.below((int)pre.size())];
        for (auto& ch : changes) if (ch.first.rfind(q, 0) == 0 && (q[0] == 'a' || ch.first.size() == q.size() + 1)) ch.second = 0;
        special += q + "*=0 "; LOG.count("gradient_cases_with_a_field_identically_zero", 1);
      }
    }
    std::set<long double> seen;
    for (auto& ch : changes) {
      const std::string& n = ch.first;
      S val = (S)ch.second;
      masa_set_param<S>(n, val);
      if (dl_compare) masa_set_param<long double>(n, (long double)val);
      S back = masa_get_param<S>(n);
      if (!biteq(back, val))
        viol_once("C09", "parameter-not-stored-exactly:" + std::string(Eps<S>::tag), "masa_set_param<" + P + ">(\"" + n + "\") stored " + bits(back) + " for the value " + bits(val) + " (the " + P + " interface is limited to a narrower type)",
                  JObj().str("solution", sol.name).str("parameter", n).num("passed", (long double)val).num("stored", (long double)back).done());
      setv[n] = (long double)val;
      base.P[n] = EQ::exact((orc::Q)val);   // the oracle evaluates for the value the user passed
      if (back == 0 || !seen.insert(fabsl((long double)back)).second) nontrivial = false;
    }
    if (setv.size() != names.size()) harness_fail("parameter vector incomplete for " + sol.name);
    LOG.count("parameter_vectors", 1);
    if (kind == 0 || kind == 4) LOG.count("fresh_parameter_vectors", 1);
    if (nontrivial && kind == 0) LOG.count("parameter_vectors_all_distinct_nonzero", 1);
    // stretched magnitudes (for as long as any stretched value stays in the vector): judged at the semantic tolerance only; overflow to inf/NaN is counted, not judged
    if (kind == 4 || kind == 6) loose_state = true; else if (kind == 0 || kind == 2) loose_state = false;
    const bool loose = loose_state;
    if (kind == 0) irregular_state = !special.empty(); else if (kind != 4) irregular_state = true;
    const bool irregular_case = irregular_state;
    int cbk = r.below(orc::chem_ncb());
    for (int pt = 0; pt < npoints; pt++) {
      long double xs[4] = {0, 0, 0, 0};
      orc::PointInfo pinfo;
      orc::make_point(r, sol, setv, prev_pt, have_prev, pt == 0 && have_prev, xs, pinfo);
      if (!pinfo.kind.empty()) LOG.count("point_kind:" + pinfo.kind.substr(0, pinfo.kind.find(' ')), 1);
      if (pinfo.kind.find("axis") != std::string::npos && pinfo.kind.find("near") == std::string::npos) LOG.count("points_on_an_axis", 1);
      bool irregular_pt = irregular_case || pinfo.irregular;
      S a[4]; long double al[4];
      orc::Ctx c = base;
      for (int i = 0; i < sol.nargs; i++) { a[i] = (S)xs[i]; al[i] = (long double)a[i]; xs[i] = (long double)a[i]; c.x[i] = EQ::exact((orc::Q)a[i]); }
      for (int i = 0; i < 4; i++) prev_pt[i] = xs[i];   // as passed to the library (bit-identical re-use of coordinates)
      have_prev = true;
      orc::chem_select(c, cbk);
      sol.eval(c);
      if (c.near_branch) { g_skipped_branch++; continue; }
      std::map<std::string, long double> libvals;
      // evaluators in a fresh random order at every point (the first call after a parameter change is a different one each time)
      std::vector<int> order = evs;
      for (size_t i = order.size(); i > 1; i--) std::swap(order[i - 1], order[(size_t)r.below((int)i)]);
      for (int ei : order) {
        const Ev& e = api()[ei];
        int dirs = (e.kind == KI) ? e.n : 1;
        if (e.kind == KI && sol.name == "navierstokes_4d_compressible_powerlaw") dirs = 3;  // spatial directions only
        for (int dir = 1; dir <= dirs; dir++) {
          std::string rid = e.id + (e.kind == KI ? "#" + std::to_string(dir) : "");
          auto it = c.out.find(rid);
          if (it == c.out.end() || !it->second.has) harness_fail("oracle for " + sol.name + " gives no reference for " + rid);
          const orc::Ref& ref = it->second;
          // a reference that is itself not finite means the drawn input is outside the admissible set (generator slip): never judged
          if (!finiteq(ref.ref.v) || !std::isfinite(ref.ref.e)) { g_ref_nonfinite++; continue; }
          set_ctx("eval:" + sol.name + ":" + e.id, "masa_eval_" + e.name + "<" + P + "> on " + sol.name + " at " + point_json(xs, sol.nargs));
          if (e.kind == KF) orc::chem_rec_reset();
          // the value must not depend on what errno held on entry (left over from an unrelated libm call anywhere in the process)
          { static const int EN[] = {0, EDOM, ERANGE, EINVAL}; errno = EN[r.below(4)]; }
          CAP.begin();
          S lib;
          // one call in sixteen from a persistent second thread (never concurrently): per-thread state in the library would show
          if (r.below(16) == 0) { WORKER.run([&] { lib = call_ev<S>(e, a, dir, cb<S>(cbk)); }); g_worker_calls++; }
          else lib = call_ev<S>(e, a, dir, cb<S>(cbk));
          std::string out = CAP.end();
          g_cmp++;
          // the call leaves the floating-point environment as it found it (rounding mode, flush-to-zero / denormals-are-zero, exception masks)
          { FpEnv now = fpenv_now(); if (!(now == g_fpenv0)) { viol_once("C09", "floating-point-environment-changed:" + sol.name + ":" + e.id, "an evaluator call changed the floating-point environment from " + g_fpenv0.str() + " to " + now.str(),
                JObj().str("solution", sol.name).str("evaluator", rid).str("before", g_fpenv0.str()).str("after", now.str()).done());
              viol_once(sol.prop, "floating-point-environment-changed:" + sol.name + ":" + e.id, "an evaluator call changed the floating-point environment from " + g_fpenv0.str() + " to " + now.str(), "{}"); g_fpenv0 = now; } }
          libvals[rid] = (long double)lib;
          if (e.kind == KF && spec.prov.count("exact_t/S1")) {
            // C06: the caller-supplied K_eq is evaluated exactly once, at the exact temperature the API returns
            S Tex = masa_eval_exact_t<S>(a[0]);
            g_cbchecks++;
            if (orc::chem_calls() != 1 || !biteq((S)orc::chem_lastT(), Tex))
              viol_once(sol.prop, "callback-not-at-exact-temperature:" + sol.name + ":" + e.id, "K_eq callback invoked " + std::to_string(orc::chem_calls()) + " times / not at masa_eval_exact_t(x)",
                        JObj().str("solution", sol.name).str("evaluator", rid).num("calls", orc::chem_calls()).num("callback_T", orc::chem_lastT()).num("exact_t", ld(Tex)).num("callback", cbk).done());
          }
          std::string cls = e.id.substr(0, e.id.find('_'));
          std::string semprop = (cls == "grad") ? "C07" : sol.prop;
          double scale = std::max(ref.ref.e, orc::absd(ref.ref.v));
          auto detail = [&](double ratio) {
            return JObj().str("solution", sol.name).str("evaluator", rid).str("precision", P).raw("point", point_json(xs, sol.nargs))
                .num("library", ld(lib)).num("reference", (long double)ref.ref.v).num("abs_err", (long double)fabsq((orc::Q)lib - ref.ref.v))
                .num("scale_e", scale).num("ratio_in_units_of_u_e", ratio).num("case", cs).raw("params", params_json(setv)).str("stdout", out.substr(0, 200)).done();
          };
          if (!std::isfinite((long double)lib) && loose) { g_loose_overflow++; continue; }
          if (!std::isfinite((long double)lib)) {
            g_nonfinite++;
            viol_once("C09", "nonfinite:" + sol.name + ":" + e.id, "evaluator returned NaN/inf on admissible input", detail(-1));
            viol_once(semprop, "nonfinite:" + sol.name + ":" + e.id, "evaluator returned NaN/inf on admissible input", detail(-1));
            continue;
          }
          if (!out.empty() && out.find("MASA") != std::string::npos)
            viol_once(semprop, "error-message:" + sol.name + ":" + e.id, "provided evaluator printed an error message", detail(-1));
          double err = orc::absd((orc::Q)lib - ref.ref.v);
          double ratio = scale > 0 ? err / (u * scale) : (err == 0 ? 0 : 1e300);
          // which model does the library agree with best: the governing operator, or a recorded deviation model?
          std::string matched_alt;
          const double precK_here = loose ? SEM_K : irregular_pt ? std::max(precK, PREC_K_IRR) : precK;
          if (ratio > std::min(precK, precK_here)) {
            double best = ratio;
            for (auto& al_ : ref.alts) {
              double sc2 = std::max(std::max(al_.ref.e, orc::absd(al_.ref.v)), scale);
              double r2 = orc::absd((orc::Q)lib - al_.ref.v) / (u * sc2);
              if (r2 < best && r2 <= SEM_K) { best = r2; matched_alt = al_.key; }
            }
            if (!matched_alt.empty()) {
              g_known++;
              viol_once(semprop, matched_alt, "library matches the recorded deviation model, not the governing operator", detail(ratio));
              viol_once("C09", matched_alt, "library matches the recorded deviation model, not the governing operator", detail(ratio));
              ratio = best;   // precision is then judged against the deviation model
            } else if (ratio > SEM_K) {
              viol_once(semprop, "mismatch:" + sol.name + ":" + e.id, "value differs from the reference far beyond roundoff", detail(ratio));
              viol_once("C09", "mismatch:" + sol.name + ":" + e.id, "value differs from the exact value far beyond roundoff", detail(ratio));
              continue;
            }
          }
          // precision regime (C09)
          MaxStat& ms = g_ratio[sol.name + "|" + e.id + "|" + Eps<S>::tag];
          ms.n++;
          if (ratio > ms.max && !irregular_pt && !loose) { ms.max = ratio; }
          if (irregular_pt && !loose) { MaxStat& mi = g_ratio_irr[sol.name + "|" + e.id + "|" + Eps<S>::tag]; mi.n++; if (ratio > mi.max) mi.max = ratio; }
          if (ratio > precK_here) {
            viol_once("C09", "precision:" + sol.name + ":" + e.id + ":" + Eps<S>::tag, "error exceeds the working-precision bound K*u*e", detail(ratio));
            // "within floating-point roundoff ... in both scalar types" is part of the statement of C01-C07 as well
            viol_once(semprop, "roundoff-exceeded:" + sol.name + ":" + e.id + ":" + Eps<S>::tag, "value agrees with the reference only to " + std::to_string(ratio) + " u e (bound " + std::to_string(precK) + ")", detail(ratio));
          }
          if (dl_compare && !loose) {
            long double libl = call_ev<long double>(e, al, dir, cb<long double>(cbk));
            double dd = (double)fabsl((long double)lib - libl);
            double r3 = scale > 0 ? dd / (0x1p-53 * scale) : (dd == 0 ? 0 : 1e300);
            g_dlcmp++;
            MaxStat& m2 = g_dl[sol.name + "|" + e.id];
            m2.n++; if (r3 > m2.max) m2.max = r3;
            if (r3 > 2 * (irregular_pt ? std::max(PREC_K_D, PREC_K_IRR) : PREC_K_D) && matched_alt.empty())
              viol_once("C09", "double-vs-longdouble:" + sol.name + ":" + e.id, "double and long double interfaces disagree beyond double precision", detail(r3));
          }
          if (e.kind != KF && cls == "grad" && fd_check && !loose) {
            int exi = ev_index("exact_" + e.name.substr(5) + "/S" + std::to_string(e.n));
            if (exi >= 0 && spec.prov.count(api()[exi].id)) {
              const Ev& ex = api()[exi];
              static const long double cf[4] = {4.0L / 5, -1.0L / 5, 4.0L / 105, -1.0L / 280};
              int var = (e.kind == KI) ? dir - 1 : 0;
              long double fmax = 0;
              // 8th-order central difference at two steps; the comparison is judged only where the two agree (the step must resolve the
              // shortest local wavelength: a_px = 388.8 in the euler_3d defaults), otherwise it is counted as inconclusive
              auto stencil = [&](long double h) {
                long double acc = 0;
                for (int k = 1; k <= 4; k++) {
                  S ap[4], am[4];
                  for (int i = 0; i < 4; i++) ap[i] = am[i] = a[i];
                  ap[var] = (S)((long double)a[var] + k * h); am[var] = (S)((long double)a[var] - k * h);
                  long double hh = (long double)ap[var] - (long double)am[var];   // the step actually taken
                  CAP.begin();
                  long double fp_ = (long double)call_ev<S>(ex, ap, 0, nullptr), fm_ = (long double)call_ev<S>(ex, am, 0, nullptr);
                  CAP.end();
                  fmax = std::max(fmax, std::max(fabsl(fp_), fabsl(fm_)));
                  acc += cf[k - 1] * (fp_ - fm_) / (hh / (2 * k));
                }
                return acc;
              };
              const long double h = 0.0005L;
              long double acc_coarse = stencil(0.002L), acc = stencil(h);
              g_fd++;
              // truncation (relative to the gradient's own scale) + roundoff of the stencil (relative to the size of the field values / step)
              // (the field's rounding error is that of its TERMS - the oracle's e of the exact field -, not of a value that may nearly cancel)
              { auto itx = c.out.find(ex.id); if (itx != c.out.end() && itx->second.has && std::isfinite(itx->second.ref.e)) fmax = std::max(fmax, (long double)itx->second.ref.e); }
              double fdtol = (sizeof(S) == 8 ? 2e-7 : 2e-9) * scale + 16 * u * (double)fmax / (double)h;
              if ((double)fabsl(acc - acc_coarse) > fdtol / 4) { g_fd_inconclusive++; g_fd--; }
              else
              if ((double)fabsl(acc - (long double)lib) > fdtol)
                viol_once("C07", "grad-vs-fd-of-exact:" + sol.name + ":" + e.id, "gradient differs from the finite-difference derivative of the API's own exact field",
                          JObj().str("solution", sol.name).str("evaluator", rid).str("precision", P).num("gradient", ld(lib)).num("fd_of_exact", acc).num("tol", fdtol).raw("point", point_json(xs, sol.nargs)).raw("params", params_json(setv)).done());
            }
          }
          if (g_cmp <= 2) LOG.sample(detail(ratio));
        }
        // C07: direction index outside 1..dimension -> error value, independent of the point
        if (e.kind == KI && classes.count("grad") && pt < 4) {
          // also indices that equal a valid one modulo 2^8 / 2^16 / 2^24 (an index narrowed to a smaller integer type)
          static const int BAD[] = {0, -1, -2, -3, INT32_MIN, INT32_MAX, 257, 258, 259, -255, -254, -253, 65537, 65538, 65539, -65535, 16777217, 16777218, INT32_MIN + 1, INT32_MIN + 2, INT32_MIN + 3};
          int nd = spec.dim >= 4 ? 3 : spec.dim;
          int bad[32]; int nb = 0;
          for (int b : BAD) bad[nb++] = b;
          bad[nb++] = nd + 1; bad[nb++] = nd + 2; bad[nb++] = nd + 3;
          for (int k = 0; k < nb; k++) {
            set_ctx("eval:" + sol.name + ":" + e.id + ":badindex", "masa_eval_" + e.name + "<" + P + "> index " + std::to_string(bad[k]));
            CAP.begin();
            S lib = call_ev<S>(e, a, bad[k], nullptr);
            CAP.end();
            g_badidx++;
            bool ok = (sol.name == "navierstokes_4d_compressible_powerlaw") ? (lib != lib) : (lib == S(-1));
            if (!ok)
              viol_once("C07", "bad-index:" + sol.name + ":" + e.id, "direction index outside 1..dimension did not yield the error value",
                        JObj().str("solution", sol.name).str("evaluator", e.id).num("index", bad[k]).num("library", ld(lib)).raw("point", point_json(xs, sol.nargs)).done());
          }
        }
      }
      for (auto& kv : c.out) {
        if (kv.first.rfind("@sum(", 0) != 0 || !kv.second.has) continue;
        std::string inner = kv.first.substr(5, kv.first.size() - 6);
        size_t cm = inner.find(',');
        auto i1 = libvals.find(inner.substr(0, cm)), i2 = libvals.find(inner.substr(cm + 1));
        if (i1 == libvals.end() || i2 == libvals.end()) continue;
        long double sum = i1->second + i2->second;
        // scale: the two summands' own references (the reaction terms must cancel to roundoff of THEIR size)
        double scale = std::max(kv.second.ref.e, orc::absd(kv.second.ref.v));
        scale = std::max(scale, std::max(c.out[inner.substr(0, cm)].ref.e, c.out[inner.substr(cm + 1)].ref.e));
        double ratio = orc::absd((orc::Q)sum - kv.second.ref.v) / (u * scale);
        g_invchecks++;
        if (ratio > SEM_K)
          viol_once(sol.prop, "invariant:" + sol.name + ":" + kv.first, "sum of the species sources is not d(rho u)/dx",
                    JObj().str("solution", sol.name).num("sum", sum).num("reference", (long double)kv.second.ref.v).num("ratio", ratio).num("callback", cbk).raw("point", point_json(xs, sol.nargs)).done());
      }
      LOG.count("points", 1);
    }
  }
}

int main(int argc, char** argv) {
  LOG.open(getarg(argc, argv, "--out"));
  CAP.install();
  install_crash_handlers();
  g_fpenv0 = fpenv_now();
  uint64_t seed = strtoull(getarg(argc, argv, "--seed", "1").c_str(), 0, 10);
  long case0 = atol(getarg(argc, argv, "--case0", "0").c_str());
  long ncases = atol(getarg(argc, argv, "--cases", "10").c_str());
  int npoints = atoi(getarg(argc, argv, "--points", "8").c_str());
  std::string prec = getarg(argc, argv, "--prec", "d");
  bool dl = hasflag(argc, argv, "--dl");
  PREC_K_D = atof(getarg(argc, argv, "--kd", "64").c_str());
  PREC_K_L = atof(getarg(argc, argv, "--kl", "64").c_str());
  PREC_K_IRR = atof(getarg(argc, argv, "--kirr", "256").c_str());
  std::set<std::string> classes;
  for (auto& s : split(getarg(argc, argv, "--classes", "source,exact,grad"), ',')) classes.insert(s);
  // --multi: every solution of the list lives on its own handle in ONE process (first pass: init, second pass: select back),
  // so state shared between handles / bound at the first call is exposed
  bool multi = hasflag(argc, argv, "--multi");
  std::vector<std::string> sl;
  for (auto& sn : split(getarg(argc, argv, "--sols"), ',')) if (!sn.empty()) sl.push_back(sn);
  for (int pass = 0; pass < (multi ? 2 : 1); pass++) {
    int hi = 0;
    for (auto& sn : sl) {
      const orc::Sol* sol = orc::find(sn);
      const SolSpec* spec = find_sol(sn);
      if (!sol || !spec) harness_fail("no oracle/spec for solution " + sn);
      std::string handle = multi ? "h" + std::to_string(hi++) : "h";
      long c0 = case0 + pass * ncases;
      if (prec == "d") run_solution<double>(*sol, *spec, seed, c0, ncases, npoints, classes, dl, handle, pass == 1);
      else run_solution<long double>(*sol, *spec, seed, c0, ncases, npoints, classes, false, handle, pass == 1);
      LOG.distinct("solutions", sn);
      if (multi) LOG.count("multi_handle_passes", 1);
    }
  }
  LOG.count("comparisons", g_cmp);
  LOG.count("double_vs_longdouble_comparisons", g_dlcmp);
  LOG.count("bad_index_calls", g_badidx);
  LOG.count("gradient_vs_fd_of_exact_checks", g_fd);
  LOG.count("gradient_vs_fd_inconclusive(step does not resolve the field)", g_fd_inconclusive);
  LOG.count("callback_argument_checks", g_cbchecks);
  LOG.count("mass_sum_invariant_checks", g_invchecks);
  LOG.count("skipped_near_branch", g_skipped_branch);
  LOG.count("skipped_reference_not_finite", g_ref_nonfinite);
  LOG.count("skipped_overflow_in_stretched_case", g_loose_overflow);
  LOG.count("evaluator_calls_made_from_a_second_thread", g_worker_calls);
  LOG.count("nonfinite", g_nonfinite);
  LOG.count("matched_known_deviation", g_known);
  for (auto& kv : g_ratio) LOG.stat("ratio", JObj().str("k", kv.first).num("max", kv.second.max).num("n", kv.second.n).done());
  for (auto& kv : g_ratio_irr) LOG.stat("ratio_structured", JObj().str("k", kv.first).num("max", kv.second.max).num("n", kv.second.n).done());
  for (auto& kv : g_dl) LOG.stat("dl", JObj().str("k", kv.first).num("max", kv.second.max).num("n", kv.second.n).done());
  for (auto& kv : g_viol_count) LOG.stat("violcount", JObj().str("k", kv.first).num("n", kv.second).done());
  end_ok();
  return 0;
}
