// C19 hostile workloads, run under ASan+UBSan+LSan and valgrind memcheck (the tools are the oracle), plus the
// conservation monitor (live solution objects == registered handles, via the MASA_VERIF hook) and a heap-growth
// measurement for repeated masa_init in the plain build.
#include "common.hpp"
#include <fcntl.h>
#include <unistd.h>
#include <config.h>
#include <malloc.h>
#include <climits>
using namespace vh;
using namespace MASA;

extern "C" {
int masa_init(const char*, const char*);
int masa_get_name(char*);
void masa_set_array(const char*, int*, double*);
int masa_get_array(const char*, int*, double*);
int masa_select_mms(const char*);
double masa_eval_1d_source_t(double);
double masa_eval_3d_grad_u(double, double, double, int);
}

static const char* PROP = "C19";
static std::set<std::string> g_em;
static void viol(const std::string& key, const std::string& msg) { if (g_em.insert(key).second) LOG.viol(PROP, key, msg); }
static long n_ops = 0;
static double cb_d(double) { return 2.5; }
static long double cb_l(long double) { return 2.5L; }
template <class S> static FP<S> cbK();
template <> FP<double> cbK<double>() { return cb_d; }
template <> FP<long double> cbK<long double>() { return cb_l; }

template <class S> static void conserve(const std::string& after) {
  long live = masa_verif_live_objects<S>();
  unsigned reg = masa_verif_registry_size<S>();
  if (live != (long)reg)
    viol(std::string("live-objects-not-conserved:") + ST<S>::name(), "after " + after + ": " + std::to_string(live) + " solution objects alive but " + std::to_string(reg) + " handles registered (" + ST<S>::name() + ")");
}
template <class S> static void op(const std::string& what) { n_ops++; set_ctx("mem", what); }

template <class S> static void touch_all(const SolSpec& sp) {
  // one evaluation of everything the solution provides + store operations
  S a[4] = {S(0.3), S(0.4), S(0.5), S(0.6)};
  for (auto& id : sp.prov) { const Ev& e = api()[ev_index(id)]; op<S>("eval " + id + " on " + sp.name); CAP.begin(); call_ev<S>(e, a, 1, cbK<S>()); CAP.end(); }
  CAP.begin();
  masa_display_param<S>(); masa_display_vec<S>(); masa_sanity_check<S>();
  CAP.end();
  for (auto& n : vec_names<S>()) { std::vector<S> v; CAP.begin(); masa_get_vec<S>(n, v); CAP.end(); }
}

template <class S> static void pairs(const std::vector<const SolSpec*>& sols, int part, int nparts) {
  // every ordered pair of solution types initialised on ONE handle (re-use) and on TWO handles
  const std::string P = ST<S>::name();
  long k = 0;
  for (auto* a : sols)
    for (auto* b : sols) {
      if ((k++ % nparts) != part) continue;
      op<S>("init(h," + a->name + "); init(h," + b->name + ") <" + P + ">");
      CAP.begin(); masa_init<S>("h", a->name); masa_init<S>("h", b->name); masa_sanity_check<S>(); masa_display_vec<S>(); CAP.end();
      conserve<S>("re-initialising handle h with " + b->name + " over " + a->name);
      op<S>("init(p," + a->name + "); init(q," + b->name + ") <" + P + ">");
      CAP.begin(); masa_init<S>("p", a->name); masa_init<S>("q", b->name); masa_select_mms<S>("p"); masa_sanity_check<S>(); masa_select_mms<S>("q"); masa_sanity_check<S>(); CAP.end();
      conserve<S>("two handles " + a->name + "," + b->name);
      LOG.count("ordered_init_pairs", 1);
    }
}

template <class S> static void orders(Rng& r, const std::vector<const SolSpec*>& sols) {
  // every solution initialised in 3 random orders, everything evaluated once, heap dirtied in between
  const std::string P = ST<S>::name();
  std::vector<const SolSpec*> v = sols;
  for (int round = 0; round < 3; round++) {
    for (size_t i = v.size() - 1; i > 0; i--) std::swap(v[i], v[(size_t)r.below((int)i + 1)]);
    for (auto* s : v) {
      // dirty the heap so that recycled blocks are not zero
      for (int k = 0; k < 8; k++) { size_t n = 64 + (size_t)r.below(4000); char* p = (char*)malloc(n); memset(p, 0xA5 + k, n); free(p); }
      op<S>("init(o" + std::to_string(round) + "," + s->name + ") <" + P + ">");
      CAP.begin(); masa_init<S>("o" + std::to_string(round), s->name); CAP.end();
      touch_all<S>(*s);
      conserve<S>("init of " + s->name);
    }
  }
  LOG.count("init_orders", 3);
}

template <class S> static void vectors(Rng& r) {
  const std::string P = ST<S>::name();
  for (const char* sol : {"cp_normal", "radiation_integrated_intensity"}) {
    CAP.begin(); masa_init<S>("v", sol); CAP.end();
    std::vector<std::string> names = vec_names<S>();
    static const int L[] = {64, 0, 1, 64, 3, 0, 200, 2};
    for (int len : L)
      for (auto& n : names) {
        std::vector<S> v((size_t)len, S(0.5));
        op<S>("set_vec(" + n + ",len " + std::to_string(len) + ") on " + sol + " <" + P + ">");
        CAP.begin(); masa_set_vec<S>(n, v);
        std::vector<S> g; masa_get_vec<S>(n, g);
        S a[4] = {S(0.3), S(0.4), S(0.5), S(0.6)};
        // evaluate with vectors of unequal / zero length
        const SolSpec* sp = find_sol(sol);
        for (auto& id : sp->prov) call_ev<S>(api()[ev_index(id)], a, r.below(8), cbK<S>());
        // ... also at points that take other branches of the evaluators: far field (x > 1000), x <= 0, huge
        static const long double XS[] = {1500.25L, 1000.5L, 1e6L, 0.0L, -3.0L, 999.999L};
        for (long double xv : XS) { S b[4] = {(S)xv, S(0.4), S(0.5), S(0.6)}; for (auto& id : sp->prov) call_ev<S>(api()[ev_index(id)], b, r.below(8), cbK<S>()); LOG.count("extreme_calls", 1); }
        masa_sanity_check<S>(); masa_display_vec<S>();
        CAP.end();
        if ((int)g.size() != len) viol("vector-length-not-honoured", "get_vec after set_vec(len " + std::to_string(len) + ") has length " + std::to_string(g.size()));
        LOG.count("vector_resets", 1);
      }
    CAP.begin(); masa_init_param<S>(); CAP.end();
  }
}

// standard output that cannot be written (disk full: /dev/full): every printing API function must still release what it allocates and
// leave the registry consistent (observed through the live-object hook right away and by LeakSanitizer at exit)
template <class S> static void bad_stdout() {
  const std::string P = ST<S>::name();
  CAP.begin(); masa_init<S>("bs", "euler_1d"); masa_init<S>("bs2", "radiation_integrated_intensity"); CAP.end();
  fflush(stdout); std::cout.flush();
  int keep = dup(1), full = open("/dev/full", O_WRONLY);
  if (keep < 0 || full < 0) { LOG.count("bad_stdout_unavailable", 1); return; }
  dup2(full, 1);
  for (int k = 0; k < 6; k++) {
    op<S>("printing API functions with stdout on /dev/full, round " + std::to_string(k) + " <" + P + ">");
    masa_printid<S>(); masa_list_mms<S>(); masa_display_param<S>(); masa_display_vec<S>(); masa_sanity_check<S>();
    masa_set_param<S>("no-such-parameter", S(1)); masa_get_param<S>("no-such-parameter");
    S a[4] = {S(0.3), S(0.4), S(0.5), S(0.6)};
    call_ev<S>(api()[ev_index("source_w/S3")], a, 1, nullptr);   // an unprovided evaluator prints its error line
    masa_init<S>("bs", k % 2 ? "euler_1d" : "heateq_2d_steady_const");
    std::cout.flush(); fflush(stdout);
    LOG.count("bad_stdout_rounds", 1);
  }
  dup2(keep, 1); close(keep); close(full);
  std::cout.clear(); clearerr(stdout);
  conserve<S>("printing with an unwritable stdout");
}

static void c_arrays(Rng& r) {
  CAP.begin(); ::masa_init("ca", "radiation_integrated_intensity"); CAP.end();
  for (int n = 0; n <= 40; n++) {
    double* buf = (double*)malloc(sizeof(double) * (size_t)(n ? n : 1));   // exact-size heap buffers: ASan sees an overrun of one element
    for (int i = 0; i < n; i++) buf[i] = 0.25 * i;
    int nn = n;
    op<double>("C masa_set_array(vec_amp,n=" + std::to_string(n) + ")");
    CAP.begin(); ::masa_set_array("vec_amp", &nn, buf); CAP.end();
    double* out = (double*)malloc(sizeof(double) * (size_t)(n ? n : 1));
    int got = -1;
    op<double>("C masa_get_array(vec_amp) into a buffer of exactly " + std::to_string(n) + " doubles");
    CAP.begin(); ::masa_get_array("vec_amp", &got, out); CAP.end();
    if (got != n) viol("c-array-length", "masa_get_array reported length " + std::to_string(got) + " after masa_set_array(n=" + std::to_string(n) + ")");
    free(out); free(buf);
    LOG.count("c_array_roundtrips", 1);
  }
  // masa_get_name into an UNINITIALISED heap buffer (not NUL-terminated garbage)
  for (int k = 0; k < 8; k++) {
    char* junk = (char*)malloc(64); memset(junk, 'J', 64); free(junk);
    char* name = (char*)malloc(64);
    op<double>("C masa_get_name into an uninitialised 64-byte heap buffer");
    CAP.begin(); ::masa_get_name(name); CAP.end();
    free(name);
    LOG.count("get_name_uninitialised_buffer", 1);
  }
  (void)r;
}

template <class S> static void extremes(const std::vector<const SolSpec*>& sols) {
  // invalid gradient indices, moment orders around zero, extreme but finite arguments
  const std::string P = ST<S>::name();
  static const long double X[] = {0.0L, -0.0L, 1e-300L, -1e-300L, 1e300L, -1e300L, 1.0L, -1.0L, 1e15L, 0.5L};
  for (auto* s : sols) {
    CAP.begin(); masa_init<S>("x", s->name); CAP.end();
    for (auto& e : api()) {
      if (e.kind == KK) {
        std::vector<int> orders; for (int k = -5; k <= 70; k++) orders.push_back(k);
        for (int k : {100, 101, 170, 171, 172, 200}) orders.push_back(k);
        for (int k : orders) { op<S>("masa_eval_" + e.id + "(" + std::to_string(k) + ") on " + s->name + " <" + P + ">"); S a[4] = {0, 0, 0, 0}; CAP.begin(); call_ev<S>(e, a, k, nullptr); CAP.end(); LOG.count("extreme_calls", 1); }
        continue;
      }
      if (!s->prov.count(e.id)) continue;
      if (s->name == "sod_1d" && !kExceptions) continue;
      for (int t = 0; t < 10; t++) {
        S a[4]; for (int i = 0; i < 4; i++) a[i] = (S)X[(t + 3 * i) % 10];
        int idx = (e.kind == KI) ? (int[]){0, -1, 5, INT_MAX, INT_MIN, 1, 2, 3, 4, 99}[t] : 0;
        op<S>("masa_eval_" + e.id + " at extreme arguments / index " + std::to_string(idx) + " on " + s->name + " <" + P + ">");
        Outcome o = guarded([&] { call_ev<S>(e, a, idx, cbK<S>()); }, false);
        (void)o;
        LOG.count("extreme_calls", 1);
      }
    }
  }
}

// parameter values at the edges of the scalar type's range, then every function that formats or inspects them
template <class S> static void extreme_values() {
  const std::string P = ST<S>::name();
  std::vector<long double> X = {-1.234567890123456e-300L, -9.876543210987654e+300L, 1.7976931348623157e308L, -4.9406564584124654e-324L, -2.2250738585072014e-308L, 1e-320L};
  if (sizeof(S) > 8) for (long double v : {-1.234567890123456e-2000L, -9.876543210987654e+4000L, -3.645199531882474e-4951L, 1.18973149535723176502e+4932L, -1.234567890123456789e+1000L}) X.push_back(v);
  for (const char* sol : {"euler_1d", "heateq_2d_unsteady_const", "navierstokes_4d_compressible_powerlaw", "cp_normal", "fans_sa_steady_wall_bounded"}) {
    CAP.begin(); masa_init<S>("xv", sol); CAP.end();
    std::vector<std::string> names = param_names<S>();
    for (long double xv : X) {
      op<S>("every parameter of " + std::string(sol) + " set to " + jnum(xv) + ", then display / sanity / get <" + P + ">");
      CAP.begin();
      for (auto& n : names) masa_set_param<S>(n, (S)xv);
      masa_display_param<S>(); masa_display_vec<S>(); masa_sanity_check<S>(); masa_list_mms<S>();
      for (auto& n : names) (void)masa_get_param<S>(n);
      CAP.end();
      LOG.count("extreme_value_rounds", 1);
    }
    CAP.begin(); masa_init_param<S>(); CAP.end();
  }
  conserve<S>("extreme parameter values");
}

// the API used while the process shuts down: a handler registered BEFORE the first MASA call runs after everything registered later has been
// destroyed - the library must still be there (ASan / valgrind see a registry that was torn down too early)
static void shutdown_user() {
  CAP.begin();
  std::string nm; MASA::masa_get_name<double>(&nm);
  volatile double v = MASA::masa_eval_source_t<double>(0.3125); (void)v;
  volatile long double w = MASA::masa_eval_source_rho<long double>(0.25L); (void)w;
  int d = 0; ::masa_get_dimension(&d);
  MASA::masa_list_mms<long double>();
  CAP.end();
}
static void at_exit_mode() {
  CAP.begin();
  MASA::masa_init<double>("late", "heateq_1d_steady_const"); MASA::masa_init<long double>("late", "euler_1d");
  CAP.end();
  LOG.count("api_calls_scheduled_for_process_shutdown", 5);
}

template <class S> static void strings() {
  // hostile strings: empty, very long, separators only, embedded control bytes, as handle / solution / parameter / vector names
  const std::string P = ST<S>::name();
  std::vector<std::string> hs = {"", " ", std::string(100000, 'h'), std::string("a\0b", 3), "\n", "h\t1", std::string(300, '-'), "\xff\xfe"};
  for (auto& h : hs) {
    op<S>("masa_init with a hostile handle of length " + std::to_string(h.size()) + " <" + P + ">");
    CAP.begin(); masa_init<S>(h, "euler_1d"); masa_select_mms<S>(h); masa_list_mms<S>(); masa_set_param<S>(h, S(1)); masa_get_param<S>(h);
    std::vector<S> v(3, S(1)); masa_set_vec<S>(h, v); masa_get_vec<S>(h, v); CAP.end();
    LOG.count("hostile_string_ops", 1);
  }
  conserve<S>("inits with hostile handles");
  // hostile solution names take the fatal path: observed in a child / under try-catch, must not corrupt memory
  for (auto& n : hs) {
    op<S>("masa_init with a hostile solution name of length " + std::to_string(n.size()) + " <" + P + ">");
    Outcome o = guarded([&] { masa_init<S>("hs", n); }, true);
    std::string pad = std::string(200, ' ') + "Euler_1D" + std::string(200, '-');
    Outcome o2 = guarded([&] { masa_init<S>("hs2", pad); }, false);
    (void)o; (void)o2;
    LOG.count("hostile_string_ops", 1);
  }
  conserve<S>("inits with hostile solution names");
}

template <class S> static void growth() {
  // memory in use after N further masa_init calls must not grow (plain build: the allocator's own counters)
  const std::string P = ST<S>::name();
  CAP.begin(); for (int i = 0; i < 50; i++) masa_init<S>("g", "euler_3d"); CAP.end();
  struct mallinfo2 m0 = mallinfo2();
  CAP.begin(); for (int i = 0; i < 1000; i++) { masa_init<S>("g", i % 2 ? "euler_3d" : "navierstokes_4d_compressible_powerlaw"); } CAP.end();
  struct mallinfo2 m1 = mallinfo2();
  long grow = (long)m1.uordblks - (long)m0.uordblks;
  LOG.stat("heap_growth_1000_reinits", JObj().str("precision", P).num("bytes", grow).done());
  LOG.count("reinit_growth_measurements", 1);
  n_ops += 1000;
  conserve<S>("1000 re-initialisations of one handle");
  if (grow > 256 * 1024) viol(std::string("heap-grows-with-reinit:") + P, "1000 further masa_init calls on one handle left " + std::to_string(grow) + " more bytes in use");
}

int main(int argc, char** argv) {
  if (getarg(argc, argv, "--mode", "all") == "atexit") atexit(shutdown_user);   // registered before the first MASA call of the process
  LOG.open(getarg(argc, argv, "--out"));
  CAP.install();
  install_crash_handlers();
  uint64_t seed = strtoull(getarg(argc, argv, "--seed", "1").c_str(), 0, 10);
  int part = atoi(getarg(argc, argv, "--shard", "0").c_str()), nparts = atoi(getarg(argc, argv, "--parts", "1").c_str());
  std::string mode = getarg(argc, argv, "--mode", "all"), prec = getarg(argc, argv, "--prec", "d");
  Rng r(seed, 88000 + (uint64_t)part);
  std::vector<const SolSpec*> sols;
  for (auto& s : catalogue()) if (s.name != "masa_test_function") sols.push_back(&s);
  bool d = prec == "d";
  if (mode == "pairs") { if (d) pairs<double>(sols, part, nparts); else pairs<long double>(sols, part, nparts); }
  if (mode == "orders" || mode == "small") { if (d) orders<double>(r, sols); else orders<long double>(r, sols); }
  if (mode == "vectors" || mode == "small") { if (d) vectors<double>(r); else vectors<long double>(r); }
  if (mode == "carrays" || mode == "small") c_arrays(r);
  if (mode == "extremes") { if (d) extremes<double>(sols); else extremes<long double>(sols); }
  if (mode == "strings") { if (d) strings<double>(); else strings<long double>(); }
  if (mode == "badstdout") { if (d) bad_stdout<double>(); else bad_stdout<long double>(); }
  if (mode == "badstdout") { if (d) bad_stdout<double>(); else bad_stdout<long double>(); }
  if (mode == "xvalues") { if (d) extreme_values<double>(); else extreme_values<long double>(); }
  if (mode == "atexit") at_exit_mode();
  if (mode == "growth") { if (d) growth<double>(); else growth<long double>(); }
  LOG.count("api_operations", n_ops);
  end_ok();
  return 0;
}
