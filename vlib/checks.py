"""One function per property: builds what it needs from the current tree, runs the shards, applies floors,
writes evidence and returns the exit code."""
import json
import os

from . import build
from .run import Agg, Shard, finish, run_shards, Inconclusive, VERIF

REGISTRY = {}
COMMON = ["common.cpp"]
NOLEAK = {"ASAN_OPTIONS": "detect_leaks=0:abort_on_error=0:exitcode=66", "UBSAN_OPTIONS": "print_stacktrace=1"}


def prop(pid):
    def deco(fn):
        REGISTRY[pid] = fn
        return fn
    return deco


def replay(pid, path):
    """re-run the check with the tier and seed stored in the replay file (every case is a pure function of
    (seed, shard, case index), so this reproduces the failing execution)"""
    r = json.load(open(path))
    print("replaying %s tier=%s seed=%s key=%s" % (pid, r.get("tier"), r.get("seed"), r.get("key")))
    return REGISTRY[pid](r.get("tier", "quick"), int(r.get("seed", 1)))


# --------------------------------------------------------------------------------------------- C13
@prop("C13")
def c13(tier, seed):
    agg = Agg("C13", tier, seed)
    n_exc, n_fork, sh_exc = (1500, 250, 4) if tier == "quick" else (60000, 6000, 8)
    exe_exc = build.build_bin("exc", "mon_names", COMMON + ["mon_names.cpp"])
    exe_pl = build.build_bin("plain", "mon_names", COMMON + ["mon_names.cpp"])
    shards = []
    for i in range(sh_exc):
        for p in ("d", "l"):
            shards.append(Shard(exe_exc, ["--seed", seed, "--shard", 2 * i + (p == "l"), "--n", n_exc, "--prec", p], "exc/%s/%d" % (p, i)))
    for i in range(4):
        p = "dl"[i % 2]
        shards.append(Shard(exe_pl, ["--seed", seed, "--shard", 100 + i, "--n", n_fork, "--prec", p], "exit/%s/%d" % (p, i)))
    for s in shards:
        s.args = [str(a) for a in s.args]
    agg.add_shards(run_shards(shards))
    floors = [("at least 1000 valid decorated strings", agg.count("valid_decorated_strings") >= 1000),
              ("at least 200 of them with adjacent separators", agg.count("valid_with_adjacent_separators") >= 200),
              ("at least 500 invalid strings", agg.count("invalid_strings") >= 500),
              ("every catalogue name resolved at least once", agg.ndistinct("resolved") >= 30),
              ("all 9 kinds of invalid string generated", agg.ndistinct("rejected-kind") >= 9)]
    cov = {"evaluations": agg.count("valid_decorated_strings") + agg.count("invalid_strings") + agg.count("handle_verbatim_checks"),
           "distinct_nontrivial": agg.count("valid_with_adjacent_separators") + agg.ndistinct("rejected-kind"),
           "rule": "strings = catalogue names (as printed by masa_printid of the build under test) decorated by random case flips and 0-4 inserted "
                   "runs of '-'/' ' (12 run shapes; leading, trailing, next to '_', anywhere), or near-misses (9 kinds: random, delete/insert/substitute one "
                   "character, '_' removed/doubled, tab or '.', separators only, two names joined), each classified by an independent normaliser "
                   "(lower-case, drop '-' and ' '). Non-trivial = valid string with >=2 adjacent separators (counted; strings are random so "
                   "duplicates are negligible) + distinct near-miss kinds.",
           "flavours": ["exc (throw observed in-process, registry compared before/after)", "plain (exit status of a forked child)"],
           "distinct_names_resolved": agg.ndistinct("resolved")}
    return finish(agg, "exploration", cov, ["the independent normaliser in mon_names.cpp is the property's definition of 'normalises to'",
                                            "catalogue = output of masa_printid of the build under test"], floors)


def prebuild():
    """build every harness binary the quick checks use (called by setup)"""
    build.build_bin("exc", "mon_names", COMMON + ["mon_names.cpp"])
    build.build_bin("plain", "mon_names", COMMON + ["mon_names.cpp"])
