"""One function per property: builds what it needs from the current tree, runs the shards, applies floors,
writes evidence and returns the exit code."""
import json
import os
import re

from . import build
from .run import Agg, Shard, finish, run_shards, Inconclusive, VERIF

REGISTRY = {}
COMMON = ["common.cpp"]
NOLEAK = {"ASAN_OPTIONS": "detect_leaks=0:abort_on_error=0:exitcode=66", "UBSAN_OPTIONS": "print_stacktrace=1"}


ENV_OK = re.compile(r"^(VERIF_.*|LANG|LANGUAGE|LC_.*|TZ|TZDIR|MALLOC_.*|GLIBC.*|LIBC_.*|ASAN_OPTIONS|UBSAN_OPTIONS|LSAN_OPTIONS|TMPDIR|HOME|PATH|LD_.*|GCOV_.*|POSIXLY_CORRECT|NLSPATH|OUTPUT_CHARSET|CHARSET)$")


def run_env(agg, shards):
    """runs the shards; if the code under test consulted environment variables the harness does not know (seen by the interposed getenv),
    runs the same shards again with each such variable set - a behaviour switch hidden in the environment is then exercised as well"""
    agg.add_shards(run_shards(shards))
    names = sorted(n for n in agg.distinct.get("environment_variables_consulted", ()) if not ENV_OK.match(n))
    agg.env_names = names
    for n in names[:6]:
        for val in ("1", "0"):
            extra = [Shard(s.exe, s.args, "%s[%s=%s]" % (s.label, n, val), env=dict(s.env, **{n: val}), timeout=s.timeout, wrapper=s.wrapper) for s in shards if not s.wrapper]
            agg.add_shards(run_shards(extra))


def prop(pid):
    def deco(fn):
        REGISTRY[pid] = fn
        return fn
    return deco


def replay(pid, path):
    """re-run the check with the tier and seed stored in the replay file (every case is a pure function of
    (seed, shard, case index), so this reproduces the failing execution)"""
    r = json.load(open(path))
    print("replaying %s tier=%s seed=%s key=%s" % (pid, r.get("tier"), r.get("seed"), r.get("key")))
    return REGISTRY[pid](r.get("tier", "quick"), int(r.get("seed", 1)))


# --------------------------------------------------------------------------------------------- C13
@prop("C13")
def c13(tier, seed):
    agg = Agg("C13", tier, seed)
    n_exc, n_fork, sh_exc = (5000, 400, 6) if tier == "quick" else (200000, 15000, 8)
    exe_exc = build.build_bin("exc", "mon_names", COMMON + ["mon_names.cpp"])
    exe_pl = build.build_bin("plain", "mon_names", COMMON + ["mon_names.cpp"])
    shards = []
    for i in range(sh_exc):
        for p in ("d", "l"):
            shards.append(Shard(exe_exc, ["--seed", seed, "--shard", 2 * i + (p == "l"), "--n", n_exc, "--prec", p], "exc/%s/%d" % (p, i)))
    for i in range(4):
        p = "dl"[i % 2]
        shards.append(Shard(exe_pl, ["--seed", seed, "--shard", 100 + i, "--n", n_fork, "--prec", p], "exit/%s/%d" % (p, i)))
    for s in shards:
        s.args = [str(a) for a in s.args]
    run_env(agg, shards)
    floors = [("at least 1000 valid decorated strings", agg.count("valid_decorated_strings") >= 1000),
              ("at least 200 of them with adjacent separators", agg.count("valid_with_adjacent_separators") >= 200),
              ("at least 500 invalid strings", agg.count("invalid_strings") >= 500),
              ("every catalogue name resolved at least once", agg.ndistinct("resolved") >= 30),
              ("all 12 kinds of invalid string generated", agg.ndistinct("rejected-kind") >= 12)]
    cov = {"evaluations": agg.count("valid_decorated_strings") + agg.count("invalid_strings") + agg.count("handle_verbatim_checks"),
           "distinct_nontrivial": agg.count("valid_with_adjacent_separators") + agg.ndistinct("rejected-kind"),
           "rule": "strings = catalogue names (as printed by masa_printid of the build under test) decorated by random case flips and 0-4 inserted "
                   "runs of '-'/' ' (12 run shapes; leading, trailing, next to '_', anywhere), or near-misses (12 kinds: random, delete/insert/substitute one "
                   "character, '_' removed/doubled, tab or '.', separators only, two names joined, a hash-preserving two-character edit, bytes with the top bit set, other white space), each classified by an independent normaliser "
                   "(lower-case, drop '-' and ' '). Non-trivial = valid string with >=2 adjacent separators (counted; strings are random so "
                   "duplicates are negligible) + distinct near-miss kinds.",
           "flavours": ["exc (throw observed in-process, registry compared before/after)", "plain (exit status of a forked child)"],
           "distinct_names_resolved": agg.ndistinct("resolved")}
    return finish(agg, "exploration", cov, ["the independent normaliser in mon_names.cpp is the property's definition of 'normalises to'",
                                            "catalogue = output of masa_printid of the build under test"], floors)


# --------------------------------------------------------------------------------------------- C01-C07, C09
PDE_SRCS = COMMON + ["mon_pde.cpp", "oracle/oracle.cpp", "oracle/orc_heat.cpp", "oracle/orc_euler.cpp", "oracle/orc_ns.cpp", "oracle/orc_axi.cpp",
                     "oracle/orc_powerlaw.cpp", "oracle/orc_misc.cpp", "oracle/orc_sa.cpp", "oracle/orc_chem.cpp"]
HEAT = ["heateq_%dd_%s_%s" % (d, a, b) for d in (1, 2, 3) for a in ("steady", "unsteady") for b in ("const", "var")]
EULER = ["euler_1d", "euler_2d", "euler_3d", "euler_transient_1d", "euler_transient_2d", "euler_transient_3d", "axisymmetric_euler", "axi_euler_transient"]
NS = ["navierstokes_2d_compressible", "navierstokes_3d_compressible", "axisymmetric_navierstokes_compressible", "axi_cns_transient", "navierstokes_4d_compressible_powerlaw"]
MISC = ["laplace_2d", "burgers_equation"]
SA = ["rans_sa", "fans_sa_transient_free_shear", "fans_sa_steady_wall_bounded"]
CHEM = ["euler_chem_1d"]
GRAD = ["euler_1d", "euler_2d", "euler_3d", "navierstokes_2d_compressible", "navierstokes_3d_compressible", "navierstokes_4d_compressible_powerlaw"]
# relative cost per (case x point), used to cut shards of similar length
COST = {"navierstokes_4d_compressible_powerlaw": 40, "fans_sa_transient_free_shear": 8, "fans_sa_steady_wall_bounded": 6, "navierstokes_3d_compressible": 4,
        "axi_cns_transient": 3, "axisymmetric_navierstokes_compressible": 3, "euler_transient_3d": 3, "euler_3d": 2, "navierstokes_2d_compressible": 2}
# C09 constants: see DESIGN sec. 5 (calibration); library flavour "plain" (-O0) and "opt" (-O2)
K_D, K_L = 8, 8
K_IRR = 256   # structured inputs (exact zeros / equal parameters / incremental and default vectors / points next to an axis): see DESIGN sec. 9.3


def pde_exe(flavour="plain"):
    return build.build_bin(flavour, "mon_pde", PDE_SRCS, opt="-O2")


def pde_shards(exe, sols, seed, cases, points, classes, precs=("d", "l"), dl=False, tag=""):
    shards = []
    for sol in sols:
        per = max(4, int((2400 if cases < 20000 else 24000) / COST.get(sol, 1) / max(points, 1)))   # cases per shard
        for p in precs:
            c0 = 0
            while c0 < cases:
                n = min(per, cases - c0)
                args = ["--sols", sol, "--prec", p, "--seed", seed, "--case0", c0, "--cases", n, "--points", points, "--classes", classes,
                        "--kd", K_D, "--kl", K_L, "--kirr", K_IRR]
                if dl and p == "d":
                    args.append("--dl")
                shards.append(Shard(exe, [str(a) for a in args], "%s%s/%s/%d" % (tag, sol, p, c0), timeout=3600))
                c0 += n
    # all solutions in scope on their own handles in one process (init pass, then select-back pass)
    for p in precs:
        args = ["--sols", ",".join(sols), "--multi", "--prec", p, "--seed", seed, "--case0", 1000000, "--cases", 3 if cases < 1000 else 12, "--points", 4, "--classes", classes,
                "--kd", K_D, "--kl", K_L, "--kirr", K_IRR]
        shards.append(Shard(exe, [str(a) for a in args], "%smulti-handle/%s" % (tag, p), timeout=3600))
    return shards


def pde_cov(agg, sols, what):
    worst = {}
    for st in agg.stats.get("ratio", []):
        k = st["k"]
        if k not in worst or st["max"] > worst[k]["max"]:
            worst[k] = {"max": round(st["max"], 4), "n": worst.get(k, {}).get("n", 0) + st["n"]}
        else:
            worst[k]["n"] += st["n"]
    top = sorted(worst.items(), key=lambda kv: -kv[1]["max"])
    worst_s = {}
    for st in agg.stats.get("ratio_structured", []):
        k = st["k"]
        w = worst_s.setdefault(k, {"max": 0, "n": 0})
        w["max"] = max(w["max"], round(st["max"], 4)); w["n"] += st["n"]
    top_s = sorted(worst_s.items(), key=lambda kv: -kv[1]["max"])
    return {
        "roundoff_bound": "generic inputs: |lib - ref| <= %g u e; structured inputs (special values, incremental/default/partial-default vectors, a coordinate within 0.05 of an axis): <= %g u e; stretched magnitudes: semantic tolerance only" % (K_D, K_IRR),
        "max_error_ratio_structured_inputs(top 10)": {k: v for k, v in top_s[:10]},
        "case_kinds": {k: agg.count(k) for k in ("fresh_parameter_vectors", "incremental_cases(1-3 parameters changed)", "default_parameter_cases(masa_init_param)", "partial_default_cases", "parameter_vectors_stretched",
                                                 "parameter_vectors_with_special_values", "points_with_a_coordinate_near_zero", "skipped_overflow_in_stretched_case")},
        "evaluations": agg.count("comparisons") + agg.count("bad_index_calls") + agg.count("gradient_vs_fd_of_exact_checks")
        + agg.count("callback_argument_checks") + agg.count("mass_sum_invariant_checks") + agg.count("double_vs_longdouble_comparisons"),
        "distinct_nontrivial": agg.count("parameter_vectors_all_distinct_nonzero"),
        "rule": "per solution and precision, parameter vectors drawn independently per parameter from the admissible set (amplitudes +-U(0.1,2), wave "
                "numbers +-U(0.2,3), lengths +-U(0.5,3), offsets dominating the amplitudes where positivity is required; long double draws use full "
                "64-bit mantissas), each evaluated at random points of the box; a vector counts as non-trivial when every parameter is non-zero and no "
                "two parameters have the same magnitude (counted by the driver; vectors are independent draws, so distinct). " + what,
        "solutions": sorted(agg.distinct.get("solutions", [])),
        "parameter_vectors": agg.count("parameter_vectors"),
        "points_evaluated": agg.count("points"),
        "skipped_near_branch_or_inadmissible": agg.count("skipped_near_branch"),
        "skipped_reference_not_finite": agg.count("skipped_reference_not_finite"),
        "parameter_vectors_with_special_values(0,+-1,integer,two equal)": agg.count("parameter_vectors_with_special_values"),
        "points_with_a_coordinate_exactly_zero": agg.count("points_on_an_axis"),
        "max_error_ratio_in_units_of_u_e_per_evaluator(top 25)": {k: v for k, v in top[:25]},
        "evaluator_instances_monitored": len(worst),
        "semantic_tolerance": "2^20 * u_S * e (e = running-error magnitude of the reference operator)",
    }


PDE_ASSUME = ["g++ __float128 arithmetic and libquadmath elementary functions are exact to well beyond long double",
              "the governing operators in harness/oracle/ops_flow.hpp, orc_*.cpp are the ones the property statement names; the fields are the documented forms "
              "and are compared value-by-value with masa_eval_exact_* wherever the API exposes them",
              "points closer than 1e-6 (relative) to a branch of a piecewise closure are skipped and counted"]


def pde_check(pid, sols, classes, tier, seed, quick=(120, 8), thorough=(4000, 16), what="", floors_extra=()):
    agg = Agg(pid, tier, seed)
    cases, points = quick if tier == "quick" else thorough
    exe = pde_exe()
    run_env(agg, pde_shards(exe, sols, seed, cases, points, classes))
    floors = [("every solution in scope contributed samples", agg.ndistinct("solutions") == len(sols)),
              ("at least 100 comparisons per solution", agg.count("comparisons") >= 100 * len(sols)),
              ("at least half of the freshly drawn parameter vectors non-trivial", agg.count("parameter_vectors_all_distinct_nonzero") * 2 >= agg.count("fresh_parameter_vectors")),
              ("incremental, default and partial-default cases all exercised", min(agg.count("incremental_cases(1-3 parameters changed)"), agg.count("default_parameter_cases(masa_init_param)"), agg.count("partial_default_cases")) >= len(sols)),
              ("fewer than 1% of the comparisons skipped because the reference is not finite", agg.count("skipped_reference_not_finite") * 100 <= agg.count("comparisons"))]
    for d, f in floors_extra:
        floors.append((d, f(agg)))
    return finish(agg, "exploration", pde_cov(agg, sols, what), PDE_ASSUME, floors)


@prop("C01")
def c01(tier, seed):
    return pde_check("C01", HEAT, "source,exact", tier, seed, quick=(3000, 16), thorough=(80000, 16))


@prop("C02")
def c02(tier, seed):
    return pde_check("C02", EULER, "source,exact", tier, seed, quick=(2000, 12), thorough=(60000, 16))


@prop("C03")
def c03(tier, seed):
    return pde_check("C03", NS, "source,exact", tier, seed, quick=(800, 8), thorough=(25000, 16),
                     what="Power-law solution: all 205 parameters drawn non-zero.")


@prop("C04")
def c04(tier, seed):
    return pde_check("C04", MISC, "source,exact", tier, seed, quick=(6000, 16), thorough=(200000, 16))


@prop("C05")
def c05(tier, seed):
    return pde_check("C05", SA, "source,exact", tier, seed, quick=(1500, 12), thorough=(60000, 16),
                     what="Free-shear solution: every temporal amplitude/frequency and v_0, v_x non-zero; two-argument forms compared with the operator at t = 0.")


@prop("C06")
def c06(tier, seed):
    return pde_check("C06", CHEM, "source,exact", tier, seed, quick=(3000, 16), thorough=(400000, 16),
                     what="Programs: 6 callbacks K_eq(T) (2 constants, 2 Arrhenius-like, 2 positive polynomials), each a call-recording variant.",
                     floors_extra=[("callback argument checked at least 1000 times", lambda a: a.count("callback_argument_checks") >= 1000),
                                   ("mass-sum invariant checked at least 500 times", lambda a: a.count("mass_sum_invariant_checks") >= 500)])


@prop("C07")
def c07(tier, seed):
    return pde_check("C07", GRAD, "grad", tier, seed, quick=(1500, 8), thorough=(30000, 16),
                     what="Gradient component i compared with (a) the jet derivative of the documented field and (b) an 8th-order central difference of "
                          "masa_eval_exact_* itself; indices {0,-1,-2,-3,INT_MIN,INT_MAX,dim+1..dim+3} must give the error value at every point.",
                     floors_extra=[("out-of-range index exercised at least 1000 times", lambda a: a.count("bad_index_calls") >= 1000),
                                   ("FD cross-check ran at least 1000 times", lambda a: a.count("gradient_vs_fd_of_exact_checks") >= 1000)])


@prop("C09")
def c09(tier, seed):
    agg = Agg("C09", tier, seed)
    sols = HEAT + EULER + NS + MISC + SA + CHEM
    cases, points = (1200, 8) if tier == "quick" else (6000, 16)
    shards = pde_shards(pde_exe("plain"), sols, seed, cases, points, "source,exact,grad", dl=True, tag="O0:")
    if tier == "quick":
        # the cheap one-dimensional solutions get five times the sample: rare parameter families (a stretched temperature in euler_chem_1d: seeded C09-m5) are
        # otherwise met by about 2 % of 1200 cases
        cheap = CHEM + ["euler_1d", "euler_transient_1d"] + [h for h in HEAT if h.startswith("heateq_1d")]
        shards += pde_shards(pde_exe("plain"), cheap, seed + 7, 6000, points, "source,exact,grad", dl=True, tag="O0+:")
    # the closed-form solutions of C08 (Sod, conjugate normal) against their quad references, reporting for C09 (accuracy bound 2^14 u for the Sod states)
    exe_cl = build.build_bin("plain", "mon_closed", COMMON + ["mon_closed.cpp"], opt="-O2")
    ncl, kcl = (300, 2) if tier == "quick" else (10000, 8)
    for what in ("sod", "cp"):
        for p in ("d", "l"):
            for i in range(kcl):
                shards.append(Shard(exe_cl, [str(a) for a in ["--seed", seed, "--shard", 300 + i * 2 + (p == "l") + (100 if what == "cp" else 0), "--what", what, "--prec", p, "--cases", ncl, "--prop", "C09"]],
                                    "closed:%s/%s/%d" % (what, p, i), timeout=3600))
    if tier == "thorough":
        shards += pde_shards(pde_exe("opt"), sols, seed + 1, cases // 2, points, "source,exact,grad", dl=True, tag="O2:")
        shards += pde_shards(pde_exe("opt3"), sols, seed + 2, cases // 4, points, "source,exact,grad", dl=True, tag="O3:")
        shards += pde_shards(pde_exe("clang"), sols, seed + 3, cases // 4, points, "source,exact,grad", dl=True, tag="clang-O2:")
    run_env(agg, shards)
    cov = pde_cov(agg, sols, "Precision regime: |lib - ref| <= K u_S e with K_double = %g, K_longdouble = %g; double and long double compared at identical "
                             "double-representable inputs; every value checked finite." % (K_D, K_L))
    dl = {}
    for st in agg.stats.get("dl", []):
        dl[st["k"]] = max(dl.get(st["k"], 0), st["max"])
    cov["max_double_vs_longdouble_ratio(top 10)"] = dict(sorted(dl.items(), key=lambda kv: -kv[1])[:10])
    cov["library_flavours"] = ["g++ -O0 -fno-unsafe-math-optimizations"] + (["g++ -O2 -fno-unsafe-math-optimizations", "g++ -O3 -fno-unsafe-math-optimizations", "clang++ 14 -O2 -fno-unsafe-math-optimizations"] if tier == "thorough" else [])
    floors = [("every solution of C01-C06 contributed samples", agg.ndistinct("solutions") == len(sols)),
              ("double vs long double compared at least 5000 times", agg.count("double_vs_longdouble_comparisons") >= 5000)]
    return finish(agg, "exploration", cov, PDE_ASSUME + ["C08 solutions (sod_1d, cp_normal): the C08 monitor's quad references, run here as extra shards (Sod accuracy bound 2^14 u, closed forms 2^20 u x conditioning)"], floors)


# --------------------------------------------------------------------------------------------- C20
RED_SRCS = [x for x in PDE_SRCS if x != "mon_pde.cpp"] + ["mon_reduce.cpp"]


@prop("C20")
def c20(tier, seed):
    agg = Agg("C20", tier, seed)
    exe = build.build_bin("plain", "mon_reduce", RED_SRCS, opt="-O2")
    cases, points, chunks = (640, 8, 8) if tier == "quick" else (60000, 16, 32)
    shards = []
    for p in ("d", "l"):
        for i in range(chunks):
            n = cases // chunks
            shards.append(Shard(exe, [str(a) for a in ["--seed", seed, "--prec", p, "--case0", i * n, "--cases", n, "--points", points]], "reduce/%s/%d" % (p, i), timeout=3600))
    run_env(agg, shards)
    worst = {}
    for st in agg.stats.get("ratio", []):
        worst[st["k"]] = max(worst.get(st["k"], 0), round(st["max"], 4))
    nred = 19
    cov = {"evaluations": agg.count("comparisons"), "distinct_nontrivial": agg.count("parameter_vectors"),
           "rule": "19 reductions (3D->2D Euler and NS; NS->Euler 2D/3D with mu=k=0; transient->steady Euler 1D/2D/3D; heat unsteady->steady x6; heat var->const x6); "
                   "for each, the simpler solution's parameters drawn independently (admissible set of its generator), copied onto the richer handle, the "
                   "specialising parameters zeroed afterwards and verified through masa_get_param, remaining rich-only parameters (R, a_*t, cp, rho, z, t) "
                   "random; each (reduction, parameter vector) is a distinct non-trivial case",
           "reductions_exercised": sorted(agg.distinct.get("reductions", [])),
           "max_ratio_in_units_of_u_e": dict(sorted(worst.items(), key=lambda kv: -kv[1])[:20]),
           "tolerance": "2^20 u e, e = running error magnitude of the simpler solution's operator (from the oracle; used as scale only)"}
    floors = [("all %d reductions exercised" % nred, agg.ndistinct("reductions") == nred), ("at least 5000 comparisons", agg.count("comparisons") >= 5000)]
    return finish(agg, "exploration", cov, ["two handles of one process; evaluation through masa_select_mms switching", "the scale e comes from the jet oracle; the verdict compares library with library"], floors)


# --------------------------------------------------------------------------------------------- C08
@prop("C08")
def c08(tier, seed):
    agg = Agg("C08", tier, seed)
    exe = build.build_bin("plain", "mon_closed", COMMON + ["mon_closed.cpp"], opt="-O2")
    ns, nc, k = (500, 500, 4) if tier == "quick" else (30000, 15000, 16)
    shards = []
    for what, n in (("sod", ns), ("cp", nc)):
        for p in ("d", "l"):
            for i in range(k):
                shards.append(Shard(exe, [str(a) for a in ["--seed", seed, "--shard", i * 2 + (p == "l") + (100 if what == "cp" else 0), "--what", what, "--prec", p, "--cases", n]],
                                    "%s/%s/%d" % (what, p, i), timeout=3600))
    run_env(agg, shards)
    worst = {}
    for st in agg.stats.get("ratio", []):
        worst[st["k"]] = max(worst.get(st["k"], 0), round(st["max"], 3))
    cov = {"evaluations": agg.count("sod_comparisons") + agg.count("cp_comparisons") + 9 * agg.count("sod_invariant_sets") + agg.count("sod_front_location_probes") + 5 * agg.count("cp_quadrature_sets"),
           "distinct_nontrivial": agg.count("sod_gammas") + agg.count("cp_parameter_sets"),
           "rule": "Sod: Gamma ~ U(1.05,3) with mu = (Gamma-1)/(Gamma+1) set consistently, t ~ U(0.05,3), two points in each of the five regions (left, fan, star-left, "
                   "star-right, right), skipped within 1e-6 of a wave front; compared with an exact Riemann solver in quad precision and with reference-free "
                   "invariants (fan velocity and isentropy, Riemann invariant at the star state, velocity across the contact, p* from shock jump == p* from isentrope, "
                   "Hugoniot density ratio, contact and shock located at the speeds the library's own star state implies). cp_normal: m, sigma, sigma_d drawn, data "
                   "vector of length 1..50 re-set 1-3 times, the five evaluator groups called in a random order (posterior mean possibly first), central moments "
                   "k=0..20, quadrature of prior/posterior and their moments, posterior/(prior*likelihood) constancy, loglik == log(lik). Each Gamma / parameter set "
                   "is a distinct case.",
           "sod_gammas": agg.count("sod_gammas"), "cp_parameter_sets": agg.count("cp_parameter_sets"), "cp_distinct_data_lengths": agg.ndistinct("cp_data_lengths"),
           "sod_skipped_near_front": agg.count("sod_skipped_near_front"),
           "max_error_in_units_of_u_times_scale": dict(sorted(worst.items(), key=lambda kv: -kv[1])[:24])}
    floors = [("Sod compared at >= 500 points", agg.count("sod_comparisons") >= 500), ("Sod invariants on >= 50 Gammas", agg.count("sod_invariant_sets") >= 50),
              ("cp_normal >= 1000 closed-form comparisons", agg.count("cp_comparisons") >= 1000), ("cp_normal quadrature on >= 20 parameter sets", agg.count("cp_quadrature_sets") >= 20),
              (">= 20 distinct data-vector lengths", agg.ndistinct("cp_data_lengths") >= 20)]
    return finish(agg, "exploration", cov, ["exact Riemann solver (Toro) and conjugate-normal formulas written in the harness in __float128", "mu kept consistent with Gamma (the property quantifies over Gamma)"], floors)


# --------------------------------------------------------------------------------------------- C10, C11, C12, C16 (history monitor)
HIST_SRCS = COMMON + ["model.cpp", "mon_hist.cpp"]


def hist_exe(flavour):
    return build.build_bin(flavour, "mon_hist", HIST_SRCS)


def hist_shards(seed, focus, steps, n_exc, n_plain, base=0):
    sh = []
    for fl, n in (("exc", n_exc), ("plain", n_plain)):
        exe = hist_exe(fl)
        for i in range(n):
            sh.append(Shard(exe, ["--mode", "random", "--focus", focus, "--steps", str(steps), "--seed", str(seed), "--shard", str(base + i + (500 if fl == "plain" else 0))],
                            "%s/random-%s/%d" % (fl, focus, i), env=NOLEAK, timeout=3600))
    return sh


HIST_RULE = ("random histories over 6 handles x 2 precisions: init (incl. re-initialisation of a live handle and two handles of one type), select, set_param (values near the "
             "defaults, and 20% arbitrary finite values incl. 0, 1e-30, 1e30), unknown names (random, case variant, proper prefix/suffix, empty, trailing blank), get, init_param, "
             "purge, sanity_check, set_vec/get_vec with lengths 0..64, display_param, evaluator calls at a pool of 32 points (half of them repeats of earlier calls), twin-handle "
             "reproduction, failing calls, checkpoints visiting every handle; every step compared with the sequential model. ")
HIST_ASSUME = ["parameter names are learnt from masa_display_param/masa_display_vec output; defaults of a solution type = first snapshot observed after masa_init",
               "the exit() build keeps sod_1d parameters near their defaults (a Sod evaluator may legitimately call exit(1) when its root is not bracketed)"]


def hist_cov(agg, extra):
    cov = {"evaluations": agg.count("steps"),
           "distinct_nontrivial": agg.shards * 1 + agg.count("checkpoints"),
           "rule": HIST_RULE + extra + " Each shard is one distinct history (distinct PRNG stream); distinct_nontrivial counts histories plus checkpoints (quiescent points at which every handle was compared).",
           "solution_types_initialised": agg.ndistinct("solutions_initialised"),
           "snapshots_compared": agg.count("snapshots_compared"), "evaluator_calls": agg.count("evaluations"), "repeated_evaluator_calls": agg.count("repeated_evaluations"),
           "twin_reproductions": agg.count("twin_reproductions"), "fatal_paths_observed": agg.count("fatal_paths_observed"), "listings_parsed": agg.count("listings_parsed"),
           "flavours": ["exc (MASA_EXCEPTIONS, failures caught in-process)", "plain (exit(); failing calls observed in forked children)"]}
    return cov


@prop("C10")
def c10(tier, seed):
    agg = Agg("C10", tier, seed)
    steps, ne, npl = (6000, 10, 6) if tier == "quick" else (250000, 12, 8)
    shards = hist_shards(seed, "purity", steps, ne, npl)
    # the directed part: vector parameters of lengths 1000 -> 300 -> 100000 -> ... -> 25 on one handle, every evaluation reproduced on a fresh twin
    for fl in ("exc", "plain"):
        shards.append(Shard(hist_exe(fl), ["--mode", "sweep", "--seed", str(seed), "--shard", "901"], fl + "/sweep+large-vectors", env=NOLEAK))
    # one and the same call 2^18 (thorough: 2^24) times in a row on eight solutions: state that builds up with the number of calls
    for i in range(2 if tier == "quick" else 4):
        shards.append(Shard(hist_exe("exc"), ["--mode", "mill", "--steps", str(1 << 18 if tier == "quick" else 1 << 24), "--seed", str(seed), "--shard", str(910 + i)], "exc/mill/%d" % i, env=NOLEAK, timeout=7200))
    run_env(agg, shards)
    cov = hist_cov(agg, "Focus: evaluator calls (45%).")
    cov["identical_calls_in_a_row(mill shards)"] = agg.count("identical_calls_in_a_row")
    floors = [("at least 5000 evaluator calls", agg.count("evaluations") >= 5000), ("at least 1000 repeated calls", agg.count("repeated_evaluations") >= 1000),
              ("at least 300 twin-handle reproductions", agg.count("twin_reproductions") >= 300), ("at least 30 solution types evaluated", agg.ndistinct("solutions_initialised") >= 30)]
    return finish(agg, "exploration", cov, HIST_ASSUME, floors)


@prop("C11")
def c11(tier, seed):
    agg = Agg("C11", tier, seed)
    steps, ne, npl = (15000, 8, 4) if tier == "quick" else (250000, 12, 8)
    shards = hist_shards(seed, "store", steps, ne, npl)
    for fl in ("exc", "plain"):
        shards.append(Shard(hist_exe(fl), ["--mode", "sweep", "--seed", str(seed), "--shard", "900"], fl + "/sweep", env=NOLEAK))
    run_env(agg, shards)
    cov = hist_cov(agg, "Plus the systematic sweep: for every solution (35) and every one of its parameter names, set that name alone to a unique value and compare the whole snapshot; "
                        "then init_param / purge / sanity_check / display_param.")
    cov["sweep_names_set_individually"] = agg.count("sweep_names")
    floors = [("sweep covered every name of every solution twice (both flavours, both precisions)", agg.count("sweep_names") >= 3200),
              ("at least 20000 snapshots compared", agg.count("snapshots_compared") >= 20000), ("at least 30 solution types", agg.ndistinct("solutions_initialised") >= 30)]
    return finish(agg, "exploration", cov, HIST_ASSUME, floors)


@prop("C12")
def c12(tier, seed):
    agg = Agg("C12", tier, seed)
    steps, ne, npl, maxlen, parts = (12000, 6, 3, 4, 10) if tier == "quick" else (100000, 10, 6, 6, 32)
    shards = hist_shards(seed, "registry", steps, ne, npl)
    exe = hist_exe("plain")
    # count thresholds: several hundred handles (names of growing length) in one registry, visited in random order, a tenth re-initialised
    for fl in ("exc", "plain"):
        shards.append(Shard(hist_exe(fl), ["--mode", "many", "--steps", "300" if tier == "quick" else "3000", "--seed", str(seed), "--shard", "950"], fl + "/many-handles", env=NOLEAK, timeout=7200))
    for i in range(parts):
        shards.append(Shard(exe, ["--mode", "exhaustive", "--maxlen", str(maxlen), "--parts", str(parts), "--shard", str(i), "--seed", str(seed)], "plain/exhaustive/%d" % i, env=NOLEAK, timeout=7200))
    run_env(agg, shards)
    cov = hist_cov(agg, "Bounded-exhaustive part: ALL sequences of length <= %d over the alphabet {init(A,s1), init(B,s1), init(B,s2), init(A,s2), select(A), select(B), set(p,v1), set(p,v2), "
                        "get(p), name, dim, list} (s1 = euler_1d, s2 = heateq_2d_steady_const) that start with an init, each executed from the empty registry in a forked child and "
                        "compared step by step; sequences selecting a handle that does not exist are C16's and are skipped." % maxlen)
    cov["handles_in_one_registry(many-handles shards)"] = agg.count("many_handles_registered")
    cov["exhaustive"] = True
    cov["exhaustive_scope"] = "the bounded part only (length <= %d); the random part is sampling" % maxlen
    cov["exhaustive_sequences_enumerated"] = agg.count("exhaustive_sequences_enumerated")
    cov["exhaustive_sequences_executed"] = agg.count("exhaustive_sequences_executed")
    cov["states"] = agg.ndistinct("exhaustive_model_states")
    cov["distinct_nontrivial"] = agg.count("exhaustive_sequences_executed") + agg.shards
    want = sum(4 * 12 ** (l - 1) for l in range(1, maxlen + 1))
    floors = [("every sequence of the bounded space enumerated (%d)" % want, agg.count("exhaustive_sequences_enumerated") == want),
              ("at least 50 distinct model states reached", agg.ndistinct("exhaustive_model_states") >= 50),
              ("at least 2000 listings parsed in random histories", agg.count("listings_parsed") >= 2000)]
    return finish(agg, "exploration", cov, HIST_ASSUME, floors)


@prop("C16")
def c16(tier, seed):
    agg = Agg("C16", tier, seed)
    steps, ne, npl = (10000, 8, 4) if tier == "quick" else (250000, 12, 6)
    shards = hist_shards(seed, "fatal", steps, ne, npl)
    for fl in ("exc", "plain"):
        for p in ("d", "l"):
            shards.append(Shard(hist_exe(fl), ["--mode", "preinit", "--prec", p, "--seed", str(seed)], "%s/preinit/%s" % (fl, p), env=NOLEAK))
    run_env(agg, shards)
    cov = hist_cov(agg, "Focus: failing calls (25%%: select of an unknown handle, init with an unknown solution name on an existing and on a new handle) injected at random positions; "
                        "after each, registry, selection, listing and the full parameter snapshot must equal the model's unchanged state and the history continues. Plus the "
                        "pre-init part: every solution-dependent API function (all %d evaluator overloads + 15 others) on an empty registry in both builds and both precisions." % 117)
    cov["preinit_functions_reached"] = agg.ndistinct("preinit_functions")
    floors = [("every API function reached the pre-init path in both precisions (>= 260)", agg.ndistinct("preinit_functions") >= 260),
              ("at least 1000 mid-session failures observed", agg.count("fatal_paths_observed") >= 1000 + 4 * 132)]
    return finish(agg, "exploration", cov, HIST_ASSUME, floors)


# --------------------------------------------------------------------------------------------- C14, C15
CAT_SRCS = [x for x in PDE_SRCS if x != "mon_pde.cpp"] + ["model.cpp", "mon_cat.cpp"]


def cat_exe(flavour):
    return build.build_bin(flavour, "mon_cat", CAT_SRCS)


@prop("C14")
def c14(tier, seed):
    agg = Agg("C14", tier, seed)
    shards = []
    for fl in ("plain", "exc", "ndebug"):
        for p in ("d", "l"):
            shards.append(Shard(cat_exe(fl), ["--mode", "c14", "--prec", p, "--seed", str(seed)], "%s/c14/%s" % (fl, p), env=NOLEAK))
    run_env(agg, shards)
    # the Fortran entry points of the documented evaluators: a module procedure bound to the C symbol of ANOTHER evaluator cannot return the
    # documented value (compiled artefact check shared with C18; the Fortran module is not part of the default build)
    try:
        from . import c18 as _c18
        bodies = _c18.fortran_interface_bodies(os.path.join(build.repo(), "src"))
        for fname, label, body in bodies:
            want = re.sub(r"_passthrough$", "", fname, flags=re.I)
            if label.lower() != want.lower():
                agg.viols.append({"key": "fortran-entry-point-bound-to-another-evaluator:" + fname, "msg": "masa.f90: %s is bound to the C symbol '%s': the Fortran entry point of this evaluator runs another one" % (fname, label),
                                  "detail": {"fortran": fname, "label": label}, "shard": "fortran-labels"})
        agg.counts["fortran_entry_points_checked"] = len(bodies)
    except Exception as e:   # noqa: BLE001
        agg.harness_fail.append("fortran label check: %s" % e)
    unknown = sorted(agg.distinct.get("entries_unknown_to_spec", []))
    missing = sorted(agg.distinct.get("spec_entries_missing_from_build", []))
    cov = {"evaluations": agg.count("evaluator_calls") + agg.count("steps"), "distinct_nontrivial": agg.ndistinct("entries_checked"),
           "rule": "every name printed by masa_printid<double> and <long double> of the build under test: unique, own normal form, initialisable, masa_get_name echoes it; for the "
                   "non-fixture entries sanity_check == 0, init_param == 0, dimension == number of spatial coordinates in spec/catalogue.txt, and every evaluator the spec lists as "
                   "documented returns a finite non-sentinel value and prints no error at 16 interior points with default parameters. Distinct = (entry, precision) pairs.",
           "configurations": ["g++ -O0 (exit() build)", "g++ -O0 -DMASA_EXCEPTIONS", "g++ -O2 -DNDEBUG"],
           "exhaustive": True, "catalogue_size": agg.ndistinct("catalogue_names"), "entries_unknown_to_spec": unknown, "spec_entries_missing_from_build": missing}
    floors = [("catalogue has at least 37 entries", agg.ndistinct("catalogue_names") >= 37), ("every entry checked in both precisions", agg.ndistinct("entries_checked") >= 2 * agg.ndistinct("catalogue_names")),
              ("no catalogue entry unknown to the spec (would be uncovered)", not unknown), ("no spec entry missing from the build", not missing)]
    return finish(agg, "exploration", cov, ["spec/catalogue.txt (derived once from the class declarations and doxygen pages at the pinned commit) says which evaluators are documented and the dimension",
                                            "interior points: the oracle's admissible point generator where one exists, (0.1,0.9)^n otherwise"], floors)


@prop("C15")
def c15(tier, seed):
    agg = Agg("C15", tier, seed)
    shards = []
    parts = 4
    for fl in (("plain", "exc") if tier == "thorough" else ("plain",)):
        for p in ("d", "l"):
            for i in range(parts):
                shards.append(Shard(cat_exe(fl), ["--mode", "c15", "--prec", p, "--seed", str(seed), "--shard", str(i), "--parts", str(parts), "--repeat", "12000" if tier == "quick" else "70000"], "%s/c15/%s/%d" % (fl, p, i), env=NOLEAK, timeout=3600))
    run_env(agg, shards)
    cov = {"evaluations": agg.count("evaluator_calls"), "distinct_nontrivial": agg.ndistinct("unprovided_pairs"),
           "rule": "every (solution, overload, precision) triple of the 117-entry API table (harness/spec/api_table.def) that spec/catalogue.txt does not list as provided or unspecified, "
                   "each called at 4 random argument tuples: result bit-equal to Scalar(-1.33), a line containing 'MASA ERROR' printed, full parameter snapshot and registry "
                   "unchanged, process alive (the exit() build: an exit() kills the shard and is reported with its context).",
           "exhaustive": True, "pairs": agg.ndistinct("unprovided_pairs")}
    floors = [("at least 7500 unprovided (solution, overload, precision) triples enumerated", agg.ndistinct("unprovided_pairs") >= 7500)]
    return finish(agg, "exploration", cov, ["capability sets in spec/catalogue.txt; unspecified: sod_1d source_t(x) (coverage-only stub)"], floors)


# --------------------------------------------------------------------------------------------- C17
CABI_SRCS = COMMON + ["model.cpp", "mon_cabi.cpp"]
C_CORE = ["masa_test_default", "masa_init", "masa_select_mms", "masa_list_mms", "masa_purge_default_param", "masa_init_param", "masa_sanity_check", "masa_display_param",
          "masa_display_array", "masa_get_name", "masa_get_dimension", "masa_set_param", "masa_get_param", "masa_set_array", "masa_get_array"]


def c_symbols(libdir):
    import re
    import subprocess
    out = subprocess.run(["nm", "-g", "--defined-only", os.path.join(libdir, "cmasa.o")], capture_output=True, text=True).stdout
    return sorted(l.split()[2] for l in out.splitlines() if len(l.split()) == 3 and l.split()[1] == "T" and re.match(r"^masa_\w+$", l.split()[2]))


def cw_table():
    import re
    return re.findall(r"^CW_[SIF]\((\w+),", open(os.path.join(VERIF, "harness", "spec", "cw_table.def")).read(), re.M)


@prop("C17")
def c17(tier, seed):
    agg = Agg("C17", tier, seed)
    steps, n = (10000, 12) if tier == "quick" else (250000, 16)
    shards = []
    for fl in ("plain", "exc"):
        exe = build.build_bin(fl, "mon_cabi", CABI_SRCS, whole_archive=True)
        for i in range(n // 2):
            shards.append(Shard(exe, ["--seed", str(seed), "--shard", str(i + (50 if fl == "exc" else 0)), "--steps", str(steps)], "%s/cabi/%d" % (fl, i), env=NOLEAK, timeout=3600))
    run_env(agg, shards)
    defined = c_symbols(build.build_lib("plain"))
    known = set(cw_table()) | set(C_CORE)
    unknown = sorted(set(defined) - known)
    cov = {"evaluations": agg.count("c_vs_cxx_evaluator_comparisons") + agg.count("store_cross_visibility_checks") + agg.count("status_comparisons") + agg.count("array_transfers") + agg.count("get_name_checks"),
           "distinct_nontrivial": agg.ndistinct("wrappers_called") + agg.count("nonzero_status_states"),
           "rule": "random histories on the double registry in which C and C++ calls are interleaved on the same handles (init/select/set/arrays/purge/init_param through either side); "
                   "every evaluator wrapper of harness/spec/cw_table.def called at pool points and compared bit for bit with the C++ <double> overload its NAME stands for; set/get and "
                   "array transfers (length 0..32, exact-size heap buffers) cross-checked in both directions; masa_get_name into a sentinel-filled buffer; status of masa_sanity_check, "
                   "masa_get_array, masa_init_param compared with the C++ status in states where it is non-zero (after purge, unknown array, masa_test_function fixture). "
                   "Non-trivial = distinct wrappers exercised + states with non-zero C++ status.",
           "wrappers_in_table": len(cw_table()), "wrappers_called": agg.ndistinct("wrappers_called"), "c_symbols_defined_by_cmasa": len(defined), "c_symbols_unknown_to_table": unknown,
           "nonzero_status_states": agg.count("nonzero_status_states")}
    floors = [("every wrapper of the table called", agg.ndistinct("wrappers_called") == len(cw_table())), ("no extern C symbol unknown to the table", not unknown),
              ("at least 5000 C-vs-C++ evaluator comparisons", agg.count("c_vs_cxx_evaluator_comparisons") >= 5000),
              ("non-zero status states reached at least 20 times", agg.count("nonzero_status_states") >= 20)]
    return finish(agg, "exploration", cov, HIST_ASSUME + ["the wrapper table maps each C name to the C++ overload of the same name and arity (not to what the wrapper currently forwards to)"], floors)


# --------------------------------------------------------------------------------------------- C19
MEM_SRCS = COMMON + ["mon_mem.cpp"]
ASAN_ENV = {"ASAN_OPTIONS": "detect_leaks=1:abort_on_error=0:exitcode=66:detect_stack_use_after_return=1:strict_string_checks=1:check_initialization_order=1:allocator_may_return_null=1",
            "UBSAN_OPTIONS": "print_stacktrace=1:halt_on_error=1", "LSAN_OPTIONS": "exitcode=67"}
VALGRIND = ["valgrind", "--tool=memcheck", "-q", "--error-exitcode=77", "--track-origins=yes", "--leak-check=full", "--errors-for-leak-kinds=definite,indirect",
            "--show-leak-kinds=definite,indirect", "--child-silent-after-fork=yes", "--num-callers=20"]


@prop("C19")
def c19(tier, seed):
    agg = Agg("C19", tier, seed)
    thorough = tier == "thorough"
    S = str
    shards = []
    mem_asan = build.build_bin("asan", "mon_mem", MEM_SRCS, whole_archive=True)
    mem_excasan = build.build_bin("exc-asan", "mon_mem", MEM_SRCS, whole_archive=True)
    mem_plain = build.build_bin("plain", "mon_mem", MEM_SRCS, whole_archive=True)
    parts = 8 if thorough else 4
    for p in ("d", "l"):
        for i in range(parts):
            shards.append(Shard(mem_asan, ["--mode", "pairs", "--prec", p, "--shard", S(i), "--parts", S(parts), "--seed", S(seed)], "asan/pairs/%s/%d" % (p, i), env=ASAN_ENV, timeout=3600))
        for mode in ("orders", "vectors"):
            shards.append(Shard(mem_asan, ["--mode", mode, "--prec", p, "--seed", S(seed)], "asan/%s/%s" % (mode, p), env=ASAN_ENV, timeout=3600))
        shards.append(Shard(mem_excasan, ["--mode", "extremes", "--prec", p, "--seed", S(seed)], "exc-asan/extremes/%s" % p, env=ASAN_ENV, timeout=3600))
        shards.append(Shard(mem_excasan, ["--mode", "strings", "--prec", p, "--seed", S(seed)], "exc-asan/strings/%s" % p, env=ASAN_ENV, timeout=3600))
        shards.append(Shard(mem_asan, ["--mode", "strings", "--prec", p, "--seed", S(seed)], "asan/strings/%s" % p, env=ASAN_ENV, timeout=3600))
        shards.append(Shard(mem_plain, ["--mode", "growth", "--prec", p], "plain/growth/%s" % p))
        shards.append(Shard(mem_asan, ["--mode", "badstdout", "--prec", p, "--seed", S(seed)], "asan/unwritable-stdout/%s" % p, env=ASAN_ENV, timeout=3600))
        shards.append(Shard(mem_asan, ["--mode", "xvalues", "--prec", p, "--seed", S(seed)], "asan/extreme-values/%s" % p, env=ASAN_ENV, timeout=3600))
    shards.append(Shard(mem_asan, ["--mode", "atexit", "--seed", S(seed)], "asan/api-at-process-shutdown", env=ASAN_ENV, timeout=3600))
    shards.append(Shard(mem_plain, ["--mode", "atexit", "--seed", S(seed)], "vg/api-at-process-shutdown", wrapper=VALGRIND, timeout=3600))
    shards.append(Shard(mem_asan, ["--mode", "carrays", "--seed", S(seed)], "asan/carrays", env=ASAN_ENV))
    # the history / catalogue / C-ABI / name workloads again, under the sanitizers
    hist_a = build.build_bin("exc-asan", "mon_hist", HIST_SRCS)
    hist_pa = build.build_bin("asan", "mon_hist", HIST_SRCS)
    steps = 20000 if thorough else 2500
    for i, focus in enumerate(["store", "purity", "registry", "fatal"] * (2 if thorough else 1)):
        shards.append(Shard(hist_a, ["--mode", "random", "--focus", focus, "--steps", S(steps), "--seed", S(seed), "--shard", S(700 + i)], "exc-asan/hist-%s/%d" % (focus, i), env=ASAN_ENV, timeout=7200))
    shards.append(Shard(hist_pa, ["--mode", "random", "--focus", "store", "--steps", S(steps), "--seed", S(seed), "--shard", "760"], "asan/hist-store", env=ASAN_ENV, timeout=7200))
    shards.append(Shard(hist_a, ["--mode", "sweep", "--seed", S(seed), "--shard", "770"], "exc-asan/sweep", env=ASAN_ENV, timeout=3600))
    shards.append(Shard(hist_a, ["--mode", "many", "--steps", "120" if not thorough else "600", "--seed", S(seed), "--shard", "771"], "exc-asan/many-handles", env=ASAN_ENV, timeout=7200))
    shards.append(Shard(hist_pa, ["--mode", "exhaustive", "--maxlen", "3", "--parts", "1", "--shard", "0", "--seed", S(seed)], "asan/exhaustive3", env=ASAN_ENV, timeout=3600))
    cabi_a = build.build_bin("exc-asan", "mon_cabi", CABI_SRCS, whole_archive=True)
    shards.append(Shard(cabi_a, ["--seed", S(seed), "--shard", "780", "--steps", S(steps)], "exc-asan/cabi", env=ASAN_ENV, timeout=7200))
    cat_a = build.build_bin("exc-asan", "mon_cat", CAT_SRCS)
    for p in ("d", "l"):
        shards.append(Shard(cat_a, ["--mode", "c15", "--prec", p, "--seed", S(seed), "--shard", "0", "--parts", "1" if thorough else "3"], "exc-asan/c15/%s" % p, env=ASAN_ENV, timeout=3600))
        shards.append(Shard(cat_a, ["--mode", "c14", "--prec", p, "--seed", S(seed)], "exc-asan/c14/%s" % p, env=ASAN_ENV, timeout=3600))
    names_a = build.build_bin("exc-asan", "mon_names", COMMON + ["mon_names.cpp"])
    shards.append(Shard(names_a, ["--seed", S(seed), "--shard", "790", "--n", "3000" if thorough else "600", "--prec", "d"], "exc-asan/names", env=ASAN_ENV, timeout=3600))
    # the same kinds of workload under clang 14's ASan+UBSan (library AND harness compiled by clang; -fsanitize=function,float-cast-overflow on top)
    mem_cl = build.build_bin("clang-asan", "mon_mem", MEM_SRCS, whole_archive=True)
    hist_cl = build.build_bin("clang-asan", "mon_hist", HIST_SRCS)
    cabi_cl = build.build_bin("clang-asan", "mon_cabi", CABI_SRCS, whole_archive=True)
    for p in ("d", "l"):
        for mode in (("vectors", "strings", "extremes", "orders") if thorough else ("vectors", "strings")):
            shards.append(Shard(mem_cl, ["--mode", mode, "--prec", p, "--seed", S(seed)], "clang-asan/%s/%s" % (mode, p), env=ASAN_ENV, timeout=3600))
    shards.append(Shard(mem_cl, ["--mode", "carrays", "--seed", S(seed)], "clang-asan/carrays", env=ASAN_ENV))
    if thorough:
        for p in ("d", "l"):
            for i in range(4):
                shards.append(Shard(mem_cl, ["--mode", "pairs", "--prec", p, "--shard", S(i), "--parts", "4", "--seed", S(seed)], "clang-asan/pairs/%s/%d" % (p, i), env=ASAN_ENV, timeout=3600))
    for i, focus in enumerate(["store", "purity", "registry", "fatal"] if thorough else ["store", "registry"]):
        shards.append(Shard(hist_cl, ["--mode", "random", "--focus", focus, "--steps", S(steps), "--seed", S(seed), "--shard", S(820 + i)], "clang-asan/hist-%s" % focus, env=ASAN_ENV, timeout=7200))
    shards.append(Shard(cabi_cl, ["--seed", S(seed), "--shard", "830", "--steps", S(steps)], "clang-asan/cabi", env=ASAN_ENV, timeout=7200))
    # valgrind memcheck on the plain build: the tool for uninitialised reads
    hist_p = hist_exe("plain")
    vg = [(mem_plain, ["--mode", "small", "--prec", "d", "--seed", S(seed)], "vg/mem-small/d"), (mem_plain, ["--mode", "small", "--prec", "l", "--seed", S(seed)], "vg/mem-small/l"),
          (hist_p, ["--mode", "random", "--focus", "store", "--steps", "2500" if thorough else "350", "--seed", S(seed), "--shard", "800"], "vg/hist-store"),
          (hist_p, ["--mode", "random", "--focus", "purity", "--steps", "2500" if thorough else "350", "--seed", S(seed), "--shard", "801"], "vg/hist-purity")]
    if thorough:
        vg.append((hist_p, ["--mode", "sweep", "--seed", S(seed), "--shard", "802"], "vg/sweep"))
        vg.append((build.build_bin("plain", "mon_cabi", CABI_SRCS, whole_archive=True), ["--seed", S(seed), "--shard", "803", "--steps", "2500"], "vg/cabi"))
    for exe, args, label in vg:
        shards.append(Shard(exe, args, label, wrapper=VALGRIND, timeout=7200))
    run_env(agg, shards)
    growth = agg.stats.get("heap_growth_1000_reinits", [])
    cov = {"evaluations": agg.count("api_operations") + agg.count("steps"), "distinct_nontrivial": agg.shards + agg.count("ordered_init_pairs"),
           "rule": "API histories run under ASan+UBSan+LSan (reports fatal, detect_leaks=1, detect_stack_use_after_return=1, strict_string_checks=1) and valgrind memcheck "
                   "(--track-origins, leak kinds definite+indirect): all ordered pairs of solution types initialised on one handle and on two handles, every solution in 3 random "
                   "orders on a dirtied heap with one evaluation of everything, vector parameters re-set 64->0->1->64->3->0->200->2, C array calls n=0..40 into exact-size heap buffers, "
                   "masa_get_name into an uninitialised heap buffer, hostile strings (empty, 100 kB, embedded NUL/control bytes) as handle, solution, parameter and vector names, invalid gradient indices / moment orders -3..25 / extreme finite arguments, and the C10-C17 history, sweep, "
                   "catalogue, C-ABI and name workloads again. Conservation monitor: live solution objects == registered handles after every operation. Plain build: heap in use "
                   "after 1000 further masa_init calls. Distinct = shards (one history each) + ordered init pairs.",
           "shards_by_tool": {"g++ asan+ubsan+lsan": sum(1 for s in shards if s.env is ASAN_ENV and not s.label.startswith("clang")), "clang asan+ubsan+lsan": sum(1 for s in shards if s.label.startswith("clang")),
                              "valgrind": sum(1 for s in shards if s.wrapper), "plain": 2},
           "ordered_init_pairs": agg.count("ordered_init_pairs"), "c_array_roundtrips": agg.count("c_array_roundtrips"), "extreme_calls": agg.count("extreme_calls"),
           "heap_growth_bytes_after_1000_reinits": growth, "sanitizer_command": "g++ -O1 -g -fsanitize=address,undefined -fno-sanitize-recover=all; clang++ 14 -O1 -fsanitize=address,undefined,function,float-cast-overflow -fno-sanitize=object-size -fno-sanitize-recover=all (library and harness); " + ASAN_ENV["ASAN_OPTIONS"],
           "valgrind_command": " ".join(VALGRIND)}
    floors = [("all 36x36 ordered init pairs in both precisions", agg.count("ordered_init_pairs") >= 2 * 36 * 36), ("C array round trips n=0..40", agg.count("c_array_roundtrips") >= 41),
              ("heap growth measured in both precisions", agg.count("reinit_growth_measurements") == 2), ("at least 3 valgrind shards", sum(1 for s in shards if s.wrapper) >= 3)]
    return finish(agg, "exploration", cov, ["ASan/UBSan miss intra-object and non-adjacent wild accesses, memcheck misses stack/global overruns: 'no report on these histories', not 'memory safe'",
                                            "libstdc++ and the harness itself are part of the observed process; leak keys are attributed to the first library frame"], floors)


# --------------------------------------------------------------------------------------------- C18
@prop("C18")
def c18(tier, seed):
    from . import c18 as m
    return m.check(tier, seed)


def prebuild():
    """build every harness binary the checks use (called by setup), in parallel"""
    from concurrent.futures import ThreadPoolExecutor
    names = COMMON + ["mon_names.cpp"]
    jobs = [("exc", "mon_names", names, {}), ("plain", "mon_names", names, {}), ("exc-asan", "mon_names", names, {}),
            ("plain", "mon_pde", PDE_SRCS, {"opt": "-O2"}), ("opt", "mon_pde", PDE_SRCS, {"opt": "-O2"}), ("plain", "mon_reduce", RED_SRCS, {"opt": "-O2"}),
            ("plain", "mon_closed", COMMON + ["mon_closed.cpp"], {"opt": "-O2"}),
            ("exc", "mon_hist", HIST_SRCS, {}), ("plain", "mon_hist", HIST_SRCS, {}), ("exc-asan", "mon_hist", HIST_SRCS, {}), ("asan", "mon_hist", HIST_SRCS, {}),
            ("plain", "mon_cat", CAT_SRCS, {}), ("exc", "mon_cat", CAT_SRCS, {}), ("ndebug", "mon_cat", CAT_SRCS, {}), ("exc-asan", "mon_cat", CAT_SRCS, {}),
            ("plain", "mon_cabi", CABI_SRCS, {"whole_archive": True}), ("exc", "mon_cabi", CABI_SRCS, {"whole_archive": True}), ("exc-asan", "mon_cabi", CABI_SRCS, {"whole_archive": True}),
            ("asan", "c18_truth", ["common.cpp", "c18_truth.cpp"], {}), ("clang-asan", "mon_mem", MEM_SRCS, {"whole_archive": True}), ("clang-asan", "mon_hist", HIST_SRCS, {}), ("clang-asan", "mon_cabi", CABI_SRCS, {"whole_archive": True}), ("asan", "mon_mem", MEM_SRCS, {"whole_archive": True}), ("exc-asan", "mon_mem", MEM_SRCS, {"whole_archive": True}), ("plain", "mon_mem", MEM_SRCS, {"whole_archive": True})]
    with ThreadPoolExecutor(6) as ex:
        list(ex.map(lambda j: build.build_bin(j[0], j[1], j[2], **j[3]), jobs))
