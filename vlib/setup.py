"""MANIFEST.setup_cmd: pre-build the library flavours and harness binaries for the current tree (offline, from disk)."""
import sys
from concurrent.futures import ThreadPoolExecutor

from . import build, checks


def main():
    flv = ["plain", "exc", "asan", "exc-asan", "opt"]
    with ThreadPoolExecutor(3) as ex:
        list(ex.map(lambda f: build.build_lib(f), flv))
    checks.prebuild()
    print("setup done")


if __name__ == "__main__":
    sys.exit(main())
