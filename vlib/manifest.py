"""Regenerates /verif/MANIFEST.json from the table below (python3 -m vlib.manifest), so it is always valid."""
import json
import os
import subprocess

VERIF = os.path.dirname(os.path.dirname(os.path.abspath(__file__)))

LEVEL_NOTE_COMMON = ("Trusted: g++ 12, its sanitizer runtimes, libquadmath; the harness in /verif/harness (reference models / operators written "
                     "from the property text, not copied from the library). Claim = held on the executions described in the evidence file.")

# id -> (technique, level text, design section, extra note)
PDE_TECH = ("runtime monitor with independent oracle: real evaluators driven with thousands of admissible parameter vectors x points in one process per shard "
            "(fresh draws, zeroed families / integer, half-integer, equal and in-band-code values, incremental changes of 1-3 parameters, masa_init_param defaults, partial defaults, pair shifts, "
            "write storms of 2^8/2^16/2^17 redundant sets, magnitudes stretched over decades; points on axes, 10^-7..10^-1 from an axis, on nodal sets, tied to L, integers, the 5x/50x box, variants of the "
            "previous point; evaluators in random order, some from a second thread; errno poisoned; several handles; re-run with every environment variable the library asks for), the floating-point environment checked after every call, each value compared with the governing operator applied by "
            "2nd-order Taylor jets (quad precision + running error bound) to the documented field; roundoff bound 8 u e (generic inputs) / 256 u e (structured inputs)")
CHECKS = {
    "C01": (PDE_TECH, "Exploration: 12 heat solutions x 2 precisions; source == rho cp(T) T_t - div(k(T) grad T) of the documented T by jets; exact_t == T; tolerance 2^20 u e.", "2/C01", ""),
    "C02": (PDE_TECH, "Exploration: 8 Euler-family solutions (Cartesian steady/transient, axisymmetric steady/transient) x 2 precisions; conservative inviscid operators on the Roy-type fields; every exact_* compared.", "2/C02", ""),
    "C03": (PDE_TECH + "; recorded deviation models for the known findings", "Exploration: 5 viscous solutions incl. the 205-parameter power-law solution (all parameters non-zero); Newtonian stress/Fourier flux operators in Cartesian and cylindrical form; the axisymmetric pair's recorded defects are matched by closed-form deviation models so any other change still fires.", "2/C03", ""),
    "C04": (PDE_TECH, "Exploration: Laplace and Burgers; Laplacian / inviscid transient Burgers operator by jets on the documented fields; 2-argument exact fields == t-independent part.", "2/C04", ""),
    "C05": (PDE_TECH + "; recorded deviation model for the f_v1 finding", "Exploration: rans_sa, free-shear and wall-bounded FANS-SA; full SA closure (f_v1 differentiated, modified S~, f_w, conservative diffusion, c_b2 term); free-shear 2-argument forms == 3-argument at t=0.", "2/C05", ""),
    "C06": (PDE_TECH + "; invariant monitor (species sources sum to d(rho u)/dx) and call-recording callbacks", "Exploration: reacting Euler with 6 user callbacks K_eq(T); kinetics written from concentrations; callback must be invoked exactly once at masa_eval_exact_t(x) (bitwise).", "2/C06", ""),
    "C07": (PDE_TECH + " and with an 8th-order finite difference of the API's own exact field; out-of-range indices", "Exploration: every gradient the 6 solutions provide, every direction, vs jet gradient (tight) and vs FD of masa_eval_exact_* (loose); 9 invalid indices incl. INT_MIN/INT_MAX must give -1 / NaN at every point.", "2/C07", ""),
    "C09": ("runtime monitor: same workload as C01-C07 judged at the precision tolerance K u e (K=8 generic, 256 structured inputs) against the quad reference; parameters must be stored bit-exactly; double vs long double at identical inputs; finiteness of every value; library built at g++ -O0 and (thorough) g++ -O2, g++ -O3, clang++ -O2",
            "Exploration: all 31 PDE solutions, both precisions; a double temporary/literal in a long double path shows as ratio 5..2000 against K=8; observed maxima per evaluator recorded in the evidence.", "2/C09", ""),
    "C08": ("runtime monitor: exact Riemann solver / conjugate-normal closed forms in quad precision as reference, plus reference-free invariant monitors (jump conditions, isentropy, quadrature, proportionality) over parameter and data-vector histories",
            "Exploration: Sod for Gamma in (1.02,12), t over five decades, all five regions, structured samples at both sides of every front and around x/t = 0, front-location probes, accuracy bound 2^14 u; cp_normal with data vectors of length 1..50 re-set between evaluations, evaluators in random order, moments k=0..20.", "2/C08",
            "Sod's states are taken as the library documents them in sod.cpp (rho 1 / 0.125, p 1 / 0.125)."),
    "C20": ("runtime monitor, reference-free: two handles in one process under four (re-)initialisation/selection histories, masa_get_name must answer for the solution each handle was given, shared parameters copied, specialising parameters zeroed and verified, sources of the two solutions compared (oracle supplies only the roundoff scale)",
            "Exploration: 19 reductions (3D->2D, NS->Euler, transient->steady, unsteady->steady heat, variable->constant properties) x 2 precisions x random parameters/points.", "2/C20", ""),
    "C10": ("runtime monitor over recorded histories: evaluator-call log keyed by (handle, parameter version, evaluator, arguments) checked for bit-identical repeats; fresh twin handle must reproduce logged bits; full parameter snapshot compared with the sequential model after every evaluator call",
            "Exploration: long random histories (both error-handling builds, both precisions) over every catalogue entry, weighted to the stateful ones (wall-bounded FANS-SA, Sod, cp_normal); half of all evaluator calls are repeats after arbitrary other operations; re-entrant callbacks, calls from a second thread, 2^18 (thorough 2^24) identical calls in a row, vector lengths up to 100000 with fresh-twin reproduction, floating-point environment compared after every call.", "2/C10", ""),
    "C11": ("runtime monitor: sequential reference map per handle compared step by step (get == model bitwise; whole snapshot after every mutator; unknown names; init_param/purge/sanity/display/vectors) + systematic sweep over every name of every solution + reference sums for the vector-parameter solution (radiation evaluators must use every entry of the vectors last set, lengths 1..64)",
            "Exploration: random op sequences on 35 solutions x 2 precisions x 2 builds, plus the exhaustive-over-names sweep (803 names per precision, incl. all 205 power-law parameters).", "2/C11", ""),
    "C12": ("runtime monitor: bounded-exhaustive enumeration of all op sequences (length <= 4 quick / <= 6 thorough) over a 12-symbol alphabet, each in a forked child from the empty registry, plus long random histories over 6 handles x 2 precisions; every step compared with the model (listing, name, dimension, selection hook, parameter isolation)",
            "Exploration with an exhaustive bounded part: 7,540 (quick) / 1.09 M (thorough) sequences enumerated completely; random part covers re-initialisation, two handles of one type, cross-precision independence, C and C++ entry points interleaved, hostile handle strings (empty, 68 characters, blanks, printf formats, hash-colliding pairs), several hundred handles in one registry.", "2/C12", ""),
    "C14": ("runtime monitor, complete enumeration: every name masa_printid lists in both precisions initialised under three handle policies (one re-used handle, three handles round-robin, fresh handle per entry) and checked against spec/catalogue.txt (name echo, sanity, init_param, dimension, every documented evaluator finite and non-sentinel at interior points)",
            "Exhaustive over the finite catalogue of the build under test (37 entries x 2 precisions x 2 builds).", "2/C14", "An entry unknown to the spec makes the run inconclusive, not green."),
    "C15": ("runtime monitor, complete enumeration: every (solution, overload, precision) triple outside the documented capability set called at 4 random argument tuples; sentinel bits, error line, parameter snapshot, registry and process survival checked",
            "Exhaustive over the finite (solution x 117 overloads x 2 precisions) space: 8,208 unprovided triples.", "2/C15", ""),
    "C16": ("runtime monitor: every solution-dependent API function on an empty registry (exit status of forked child in the exit() build, thrown int in the exceptions build) + failing calls injected into random histories with full state comparison against the model afterwards",
            "Exploration: 132 functions x 2 precisions x 2 builds pre-init; >1000 mid-session failures per run with registry/selection/parameters compared and the history continued.", "2/C16", ""),
    "C17": ("runtime monitor: C and C++ calls interleaved on the same handles of random histories; every extern C wrapper compared bit for bit with the C++ <double> overload its name stands for; statuses compared in states where the C++ status is non-zero; nm cross-check of the wrapper table",
            "Exploration: all 80 evaluator wrappers + 14 core entry points, thousands of comparisons per run, both builds.", "2/C17", ""),
    "C18": ("runtime/compiled-artefact monitor: the Fortran compiler's own C view of every bind(C) interface (gcc -fc-prototypes) compared with the DWARF types of the compiled C definitions (gdb ptype) and nm; a generated Fortran program using the real module executes every interface and is compared bit for bit with the C++ API under ASan; header-vs-library link-and-run probe; masa.i lexical check and the generated header preprocessed as C with and without SWIG's macros (same declarations required)",
            "Complete over the finite set of 91 bind(C) interfaces and 73 extern C declarations; 530 executed Fortran-vs-C++ comparisons.", "2/C18",
            "SWIG clause: swig is not installed in this sandbox, so the Python module can be neither built nor run; what SWIG would read (masa.i directives, masa.h under -DSWIG) is compared with the C compiler's view."),
    "C19": ("sanitizers as oracle: g++ 12 and clang 14 ASan+UBSan+LSan builds (reports fatal; clang adds -fsanitize=function,float-cast-overflow, library and harness both instrumented) and valgrind memcheck over hostile API histories; conservation monitor on the MASA_VERIF hook (live objects == registered handles) after every operation; allocator counters for heap growth under repeated masa_init",
            "Exploration: 2x36x36 ordered init pairs, 3 random init orders on a dirtied heap, vector length changes, C arrays n=0..40 in exact-size buffers, uninitialised name buffer, extreme arguments/indices, and the C10-C17 workloads again under the tools.", "2/C19",
            "A clean run is 'no report on these histories', not memory safety."),
    "C13": ("runtime monitor: random decorated/near-miss name strings vs independent normaliser, through the C++ and the C entry points; handles (incl. leading/trailing blanks) must be registered and selectable verbatim; throw observed in-process (exceptions build) and exit status of forked child (exit() build); registry compared before/after",
            "Exploration: thousands of generated strings per run (valid decorations incl. adjacent/leading/trailing separator runs; 9 kinds of near-miss), both precisions, both error-handling builds; oracle is a 3-line normaliser.",
            "2/C13", ""),
}

NOT_YET = {}


def main():
    props = [json.loads(l) for l in open(os.path.join(VERIF, "properties.jsonl"))]
    try:
        commits = subprocess.run(["git", "-C", "/repo", "log", "--format=%h %s"], capture_output=True, text=True).stdout.splitlines()
    except OSError:
        commits = []
    hook_commits = [c.split()[0] for c in commits if "verif hook" in c]
    checks = []
    na = []
    for p in props:
        pid = p["id"]
        if pid in CHECKS:
            tech, text, ref, note = CHECKS[pid]
            checks.append({
                "property_id": pid,
                "quick_cmd": "./check %s --tier quick" % pid,
                "thorough_cmd": "./check %s --tier thorough" % pid,
                "evidence_file": "/verif/evidence/%s.json" % pid,
                "replay_cmd_template": "./check %s --replay {path}" % pid,
                "engine": "masa-runtime-monitors",
                "level_claimed": {"category": "exploration", "text": text, "design_ref": "DESIGN.md sec. " + ref},
                "level_note": (note + " " if note else "") + LEVEL_NOTE_COMMON,
                "technique": tech,
            })
        else:
            na.append({"property_id": pid, "reason": NOT_YET.get(pid, "check not built yet in this session (planned: DESIGN.md sec. 2/%s); not claimed until its monitor exists and is silent on the unchanged tree" % pid)})
    m = {
        "version": 1,
        "setup_cmd": "python3 -m vlib.setup",
        "hooks": {
            "guard": "MASA_VERIF",
            "enable": "vlib/build.py compiles /repo/src/*.cpp itself with -DMASA_VERIF (flavours plain/opt/opt3/clang/exc/asan/exc-asan/clang-asan, cache keyed by a hash of the source tree)",
            "baseline_off_cmd": "vlib/baseline_off.sh",
            "source_commits": hook_commits,
            "add_only": True,
        },
        "engines": [{"name": "masa-runtime-monitors", "path": "/verif/check", "serves_properties": sorted(CHECKS),
                     "kind_free_text": "runtime monitoring: C++ drivers linked with the library rebuilt from the working tree (g++ -O0/-O2/-O3, clang -O2, exceptions, g++ and clang ASan+UBSan flavours), reference models/oracles in the harness, Python orchestration, known-findings matching"}],
        "checks": checks,
        "not_applicable": na,
        "notes": "All checks: ./check <id> --tier quick|thorough, seed from VERIF_SEED. Exit 0 held / 1 VIOLATION / 2 inconclusive (harness failure, floor not met, watchdog). Known findings: /verif/known_findings.json.",
    }
    with open(os.path.join(VERIF, "MANIFEST.json"), "w") as f:
        json.dump(m, f, indent=1)
        f.write("\n")


if __name__ == "__main__":
    main()
