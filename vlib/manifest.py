"""Regenerates /verif/MANIFEST.json from the table below (python3 -m vlib.manifest), so it is always valid."""
import json
import os
import subprocess

VERIF = os.path.dirname(os.path.dirname(os.path.abspath(__file__)))

LEVEL_NOTE_COMMON = ("Trusted: g++ 12, its sanitizer runtimes, libquadmath; the harness in /verif/harness (reference models / operators written "
                     "from the property text, not copied from the library). Claim = held on the executions described in the evidence file.")

# id -> (technique, level text, design section, extra note)
CHECKS = {
    "C13": ("runtime monitor: random decorated/near-miss name strings vs independent normaliser; throw observed in-process (exceptions build) and exit status of forked child (exit() build); registry compared before/after",
            "Exploration: thousands of generated strings per run (valid decorations incl. adjacent/leading/trailing separator runs; 9 kinds of near-miss), both precisions, both error-handling builds; oracle is a 3-line normaliser.",
            "2/C13", ""),
}

NOT_YET = {}


def main():
    props = [json.loads(l) for l in open(os.path.join(VERIF, "properties.jsonl"))]
    try:
        commits = subprocess.run(["git", "-C", "/repo", "log", "--format=%h %s"], capture_output=True, text=True).stdout.splitlines()
    except OSError:
        commits = []
    hook_commits = [c.split()[0] for c in commits if "verif hook" in c]
    checks = []
    na = []
    for p in props:
        pid = p["id"]
        if pid in CHECKS:
            tech, text, ref, note = CHECKS[pid]
            checks.append({
                "property_id": pid,
                "quick_cmd": "./check %s --tier quick" % pid,
                "thorough_cmd": "./check %s --tier thorough" % pid,
                "evidence_file": "/verif/evidence/%s.json" % pid,
                "replay_cmd_template": "./check %s --replay {path}" % pid,
                "engine": "masa-runtime-monitors",
                "level_claimed": {"category": "exploration", "text": text, "design_ref": "DESIGN.md sec. " + ref},
                "level_note": (note + " " if note else "") + LEVEL_NOTE_COMMON,
                "technique": tech,
            })
        else:
            na.append({"property_id": pid, "reason": NOT_YET.get(pid, "check not built yet in this session (planned: DESIGN.md sec. 2/%s); not claimed until its monitor exists and is silent on the unchanged tree" % pid)})
    m = {
        "version": 1,
        "setup_cmd": "python3 -m vlib.setup",
        "hooks": {
            "guard": "MASA_VERIF",
            "enable": "vlib/build.py compiles /repo/src/*.cpp itself with -DMASA_VERIF (flavours plain/opt/exc/asan/exc-asan, cache keyed by a hash of the source tree)",
            "baseline_off_cmd": "vlib/baseline_off.sh",
            "source_commits": hook_commits,
            "add_only": True,
        },
        "engines": [{"name": "masa-runtime-monitors", "path": "/verif/check", "serves_properties": sorted(CHECKS),
                     "kind_free_text": "runtime monitoring: C++ drivers linked with the library rebuilt from the working tree (plain, -O2, exceptions, ASan+UBSan flavours), reference models/oracles in the harness, Python orchestration, known-findings matching"}],
        "checks": checks,
        "not_applicable": na,
        "notes": "All checks: ./check <id> --tier quick|thorough, seed from VERIF_SEED. Exit 0 held / 1 VIOLATION / 2 inconclusive (harness failure, floor not met, watchdog). Known findings: /verif/known_findings.json.",
    }
    with open(os.path.join(VERIF, "MANIFEST.json"), "w") as f:
        json.dump(m, f, indent=1)
        f.write("\n")


if __name__ == "__main__":
    main()
