#!/bin/sh
# Runs the repository's own suite with the verification guard OFF (nothing defines MASA_VERIF in the
# autotools build) on a scratch copy of /repo's working tree, and summarises the .trs results.
set -e
REPO=${VERIF_REPO:-/repo}
W=$(mktemp -d ${TMPDIR:-/var/tmp}/masa-baseline.XXXXXX)
trap 'rm -rf "$W"' EXIT
rsync -a --exclude .git "$REPO"/ "$W"/repo/
cd "$W"/repo
if grep -rq "define MASA_VERIF" config.h 2>/dev/null; then echo "guard unexpectedly on"; exit 2; fi
(make distclean >/dev/null 2>&1 || true)
./configure >"$W"/configure.log 2>&1 || { tail -30 "$W"/configure.log; exit 2; }
make -j16 >"$W"/make.log 2>&1 || { tail -30 "$W"/make.log; exit 2; }
make -k -j8 check >"$W"/check.log 2>&1 || true
python3 - "$W"/repo <<'PY'
import json, os, sys, glob
root = sys.argv[1]
res = {}
for p in glob.glob(root + "/*/*.trs"):
    name = os.path.relpath(p, root)[:-4]
    r = [l.split(":", 2)[2].strip() for l in open(p) if l.startswith(":test-result:")]
    res[name] = r[0] if r else "?"
try:
    base = [n for n in json.load(open("/root/.vp/BASELINE.json"))["stable_pass"] if "/" in n]
except OSError:
    base = sorted(n for n, r in res.items() if r == "PASS")
missing = [n for n in base if res.get(n) != "PASS"]
failed = [n for n, r in res.items() if r not in ("PASS", "SKIP")]
print("baseline with guard off: %d of %d stable baseline tests PASS; %d other results: %s" % (
    len(base) - len(missing), len(base), len(failed), {n: res[n] for n in failed}))
for n in missing:
    print("NOT-PASSED:", n, res.get(n))
sys.exit(1 if missing or failed else 0)
PY
