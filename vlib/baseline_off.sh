#!/bin/sh
# Runs the repository's own suite with the verification guard OFF (nothing defines MASA_VERIF in the
# autotools build) on a scratch copy of /repo's working tree, and summarises the .trs results.
set -e
REPO=${VERIF_REPO:-/repo}
W=$(mktemp -d ${TMPDIR:-/var/tmp}/masa-baseline.XXXXXX)
trap 'rm -rf "$W"' EXIT
rsync -a --exclude .git "$REPO"/ "$W"/repo/
cd "$W"/repo
if grep -rq "define MASA_VERIF" config.h 2>/dev/null; then echo "guard unexpectedly on"; exit 2; fi
(make distclean >/dev/null 2>&1 || true)
./configure >"$W"/configure.log 2>&1 || { tail -30 "$W"/configure.log; exit 2; }
make -j16 >"$W"/make.log 2>&1 || { tail -30 "$W"/make.log; exit 2; }
make -k -j8 check >"$W"/check.log 2>&1 || true
pass=$(grep -l "^:test-result: PASS" $(find . -name '*.trs') | wc -l)
fail=$(grep -L "^:test-result: PASS" $(find . -name '*.trs') | wc -l)
echo "baseline with guard off: $pass passed, $fail not passed (BASELINE.json expects 139 stable passes counting both name forms; distinct .trs files listed below)"
grep -L "^:test-result: PASS" $(find . -name '*.trs') | sed 's/^/NOT-PASSED: /' || true
[ "$fail" -eq 0 ]
