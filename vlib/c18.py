"""C18: Fortran and Python bindings match the C ABI they bind to - decided from compiled artefacts and executions:
 1. the Fortran compiler's own C view of every bind(C) interface (gcc -fc-prototypes on masa.f90)
 2. the C definitions as compiled (DWARF of cmasa.cpp via gdb ptype; nm for existence)
 3. execution: a generated Fortran program that uses the real module and calls every interface, compared bit for
    bit with the C++ <double> API executing the same plan (ASan flavour)
 4. every function declared in the extern "C" part of masa.h is defined by the library (nm + link/run probe)
 5. the SWIG module wraps exactly that header (lexical: swig is not installed)
"""
import os
import re
import shutil
import subprocess
import tempfile
import time

from . import build
from .run import Agg, finish, Inconclusive, VERIF

HEXARGS = ["0.3125", "0.4375", "0.5625", "0.6875"]
PLAN_SOLS = [("euler_1d", "u_0", "1.25"), ("euler_chem_1d", "u_0", "1.25"), ("navierstokes_3d_compressible", "mu", "0.03125"),
             ("navierstokes_4d_compressible_powerlaw", "beta", "0.75"), ("heateq_2d_unsteady_const", "A_x", "1.25"), ("radiation_integrated_intensity", "no_gauss", "25.0")]


def sh(cmd, cwd=None, env=None, timeout=600):
    p = subprocess.run(cmd, cwd=cwd, env=env, capture_output=True, text=True, timeout=timeout)
    return p.returncode, p.stdout, p.stderr


def norm_type(t):
    t = t.strip()
    t = re.sub(r"\s+", " ", t)
    t = re.sub(r"\s*\*\s*", " *", t)
    t = t.replace("( *)", "(*)")
    return t.strip()


def strip_name(arg):
    """'const char *user_tag' -> 'const char *' ; 'double x' -> 'double'"""
    arg = arg.strip()
    m = re.match(r"^(.*?)(\b[A-Za-z_]\w*)$", arg)
    if m and m.group(1).strip():
        return norm_type(m.group(1))
    return norm_type(arg)


def fortran_prototypes(src, work):
    rc, out, err = sh(["gcc", "-fsyntax-only", "-fc-prototypes", os.path.join(src, "masa.f90")], cwd=work)
    if rc != 0:
        raise Inconclusive("gcc -fc-prototypes failed on masa.f90: " + err[-800:])
    protos = {}
    for line in out.splitlines():
        m = re.match(r"^([\w \*]+?)\s*\b(masa_\w+)\s*\((.*)\);\s*$", line)
        if m:
            args = [a for a in (x.strip() for x in m.group(3).split(",")) if a]
            protos[m.group(2)] = (norm_type(m.group(1)), args)
    return protos


def fortran_interface_bodies(src):
    """every ACTIVE (non-comment) procedure header carrying bind(C[,name=...]) in masa.f90, at any nesting depth, with its body:
    [(fortran_name, binding_label, body_text)].  -fc-prototypes only shows interfaces visible at module scope; an interface
    block local to a contained procedure binds a C symbol all the same."""
    txt = "\n".join(l.split("!")[0] for l in open(os.path.join(src, "masa.f90")).read().splitlines())
    out = []
    pat = re.compile(r"^[ \t]*((?:[\w\(\) \t]+?[ \t]+)?(function|subroutine)[ \t]+(\w+)[ \t]*\([^)]*\)[^\n]*?bind[ \t]*\([ \t]*C[ \t]*(?:,[ \t]*name[ \t]*=[ \t]*'(\w+)')?[ \t]*\)[^\n]*\n.*?\n[ \t]*end[ \t]+\2(?:[ \t]+\3)?[ \t]*)$", re.S | re.I | re.M)
    for m in pat.finditer(txt):
        fname = m.group(3)
        if fname.lower() == "funct":
            continue      # the callback dummy's own (nested, abstract) interface: not a binding to a library symbol
        label = m.group(4) or fname.lower()
        out.append((fname, label, m.group(1)))
    return out


def standalone_prototype(body, work, tag):
    """the C prototype the Fortran compiler derives from ONE interface body, compiled on its own"""
    f = os.path.join(work, "iface_%s.f90" % tag)
    with open(f, "w") as fh:
        fh.write("module iface_probe\n  use iso_c_binding\n  implicit none\n  interface\n" + body + "\n  end interface\nend module iface_probe\n")
    rc, out, err = sh(["gcc", "-fsyntax-only", "-fc-prototypes", f], cwd=work)
    if rc != 0:
        return None
    for line in out.splitlines():
        m = re.match(r"^([\w \*]+?)\s*\b(\w+)\s*\((.*)\);\s*$", line)
        if m:
            return m.group(2), (norm_type(m.group(1)), [a for a in (x.strip() for x in m.group(3).split(",")) if a])
    return None


def fortran_callback_by_value(src):
    """for each interface with a procedure dummy 'funct': does the module declare the callback's argument VALUE?"""
    txt = open(os.path.join(src, "masa.f90")).read()
    res = {}
    for m in re.finditer(r"bind\s*\(\s*C\s*,\s*name\s*=\s*'(\w+)'\s*\)(.*?)end\s+function\s+masa_\w+", txt, re.S | re.I):
        body = m.group(2)
        f = re.search(r"function\s+funct\s*\(\s*(\w+)\s*\)\s*bind\s*\(\s*C\s*\)(.*?)end\s+function", body, re.S | re.I)
        if f:
            arg = f.group(1)
            decl = re.search(r"^\s*real\s*\(\s*c_double\s*\)\s*([^:\n]*)::\s*%s\b" % re.escape(arg), f.group(2), re.M | re.I)
            res[m.group(1)] = (decl is not None and "value" in decl.group(1).lower(), (decl.group(1).strip() if decl else ""))
    return res


def c_definitions(src, libdir, work, names):
    o = os.path.join(work, "cmasa_g.o")
    rc, out, err = sh(["g++", "-std=gnu++17", "-g", "-O0", "-w", "-DHAVE_CONFIG_H", "-D" + build.GUARD, "-I", libdir, "-I", src, "-c", os.path.join(src, "cmasa.cpp"), "-o", o])
    if rc != 0:
        raise Inconclusive("cannot compile cmasa.cpp with -g: " + err[-800:])
    cmd = ["gdb", "-batch", "-nx"]
    for n in names:
        cmd += ["-ex", "echo @@%s\\n" % n, "-ex", "ptype %s" % n]
    rc, out, err = sh(cmd + [o])
    defs = {}
    cur = None
    for line in (out + "\n" + err).splitlines():
        if line.startswith("@@"):
            cur = line[2:].strip()
        elif cur and line.startswith("type = "):
            m = re.match(r"^type = (.*?)\s*\((.*)\)\s*$", line)
            if m:
                a = m.group(2)
                args, depth, curarg = [], 0, ""
                for ch in a:
                    if ch == "(":
                        depth += 1
                    if ch == ")":
                        depth -= 1
                    if ch == "," and depth == 0:
                        args.append(curarg)
                        curarg = ""
                    else:
                        curarg += ch
                if curarg.strip():
                    args.append(curarg)
                args = [norm_type(x) for x in args if x.strip() and x.strip() != "void"]
                defs[cur] = (norm_type(m.group(1)), args)
            cur = None
    return defs


def header_c_decls(src):
    txt = open(os.path.join(src, "masa.h.in")).read()
    i = txt.rfind('extern "C" {')
    part = txt[i:]
    part = re.sub(r"/\*.*?\*/", "", part, flags=re.S)
    return sorted(set(re.findall(r"\bextern\s+[\w\s\*]+?\b(masa_\w+)\s*\(", part)))


def header_view(libdir, defines=()):
    """the extern "C" declarations of the generated masa.h as a C translation unit sees them after preprocessing
    (SWIG processes %include "masa.h" as C with SWIG, SWIGPYTHON defined); returns {name: normalised declaration}"""
    rc, out, err = sh(["gcc", "-E", "-x", "c", "-P"] + ["-D" + d for d in defines] + ["-I", libdir, os.path.join(libdir, "masa.h")])
    if rc != 0:
        return None
    out = re.sub(r"\s+", " ", out)
    decls = {}
    for m in re.finditer(r"(?:extern\s+)?([A-Za-z_][\w\s\*]*?)\b(masa_\w+)\s*\(([^;{}]*?)\)\s*;", out):
        decls[m.group(2)] = re.sub(r"\s+", " ", "%s %s(%s)" % (m.group(1).strip(), m.group(2), m.group(3).strip()))
    return decls


def defined_symbols(libdir):
    rc, out, err = sh(["nm", "-g", "--defined-only", os.path.join(libdir, "libmasa.a")])
    return set(l.split()[2] for l in out.splitlines() if len(l.split()) == 3 and l.split()[1] in ("T", "W"))


def cw_map():
    m = {}
    for kind, cn, ev, n in re.findall(r"^CW_([SIF])\((\w+), (\w+)(?:, (\d))?\)", open(os.path.join(VERIF, "harness", "spec", "cw_table.def")).read(), re.M):
        m[cn] = (kind, ev, int(n) if n else 1)
    return m


def make_plan(protos):
    cw = cw_map()
    plan = []
    for i, (sol, pn, pv) in enumerate(PLAN_SOLS):
        plan.append(("init", "f%d" % i, sol))
        plan.append(("set", pn, pv))
        plan.append(("get", pn))
        for cn in sorted(protos):
            if cn.startswith("masa_eval_") and cn in cw:
                kind, ev, n = cw[cn]
                plan.append(("eval", cn, "%s/%s%d" % (ev, kind, n), n, HEXARGS[:n], 2 if kind == "I" else 0))
        for c0 in ("masa_list_mms", "masa_display_param", "masa_display_array", "masa_sanity_check"):
            if c0 in protos:
                plan.append(("call0", c0))
        if sol == "radiation_integrated_intensity" and "masa_get_array" in protos:
            plan.append(("getarray", "vec_mean"))
            plan.append(("getarray", "vec_amp"))
    plan.append(("select", "f0"))
    plan.append(("get", "u_0"))
    for c0 in ("masa_purge_default_param", "masa_sanity_check", "masa_init_param"):
        if c0 in protos:
            plan.append(("call0", c0))
    plan.append(("get", "u_0"))
    return plan


def plan_text(plan):
    out = []
    for p in plan:
        if p[0] == "eval":
            out.append("eval %s %s %d %s %d" % (p[1], p[2], p[3], " ".join(p[4]), p[5]))
        else:
            out.append(" ".join(str(x) for x in p))
    return "\n".join(out) + "\n"


def fortran_driver(plan, protos, cb_attrs):
    L = ["module c18cb", "  use iso_c_binding", "  implicit none", "contains", "  function keq(x) bind(C)",
         "    real(c_double)%s :: x" % ((", " + cb_attrs) if cb_attrs else ""), "    real(c_double) :: keq", "    keq = 2.5_c_double + 0.125_c_double*x", "  end function keq", "end module c18cb",
         "program c18drv", "  use iso_c_binding", "  use masa", "  use c18cb", "  implicit none", "  real(c_double) :: r", "  real(c_double) :: arr(4096)", "  integer(c_int) :: n", "  integer :: k",
         "  character(len=1024) :: fn", "  call get_command_argument(1, fn)", "  open(unit=20, file=trim(fn), status='replace', action='write')"]

    def w(s):
        L.append("  " + s)
    for p in plan:
        if p[0] == "init":
            w('call masa_init("%s","%s")' % (p[1], p[2])); w("write(20,'(A)') 'init %s'" % p[2])
        elif p[0] == "select":
            w('call masa_select_mms("%s")' % p[1]); w("write(20,'(A)') 'select %s'" % p[1])
        elif p[0] == "set":
            w('call masa_set_param("%s", %s_c_double)' % (p[1], p[2])); w("write(20,'(A)') 'set %s'" % p[1])
        elif p[0] == "get":
            w('r = masa_get_param("%s")' % p[1]); w("write(20,'(A,1X,Z16.16)') 'get %s', transfer(r, 1_c_int64_t)" % p[1])
        elif p[0] == "getarray":
            w("n = 0"); w('call masa_get_array("%s", n, arr)' % p[1])
            w("write(20,'(A,1X,I0,*(1X,Z16.16))') 'getarray %s', n, (transfer(arr(k), 1_c_int64_t), k=1,n)" % p[1])
        elif p[0] == "call0":
            w("call %s()" % p[1]); w("write(20,'(A)') 'call0 %s'" % p[1])
        elif p[0] == "eval":
            cn = p[1]
            ret, args = protos[cn]
            actual = []
            di = 0
            for a in args:
                t = strip_name(a)
                if "funct" in a:
                    actual.append("keq")
                elif t == "double":
                    actual.append(HEXARGS[min(di, 3)] + "_c_double"); di += 1
                elif t == "int":
                    actual.append("2_c_int")
                else:
                    actual.append("0")   # unexpected: let the compiler complain
            w("r = %s(%s)" % (cn, ", ".join(actual)))
            w("write(20,'(A,1X,Z16.16)') 'eval %s', transfer(r, 1_c_int64_t)" % cn)
        w("flush(20)")
    L += ["  close(20)", "end program c18drv"]
    out = []
    for l in L:   # free-form line limit
        while len(l) > 120:
            cut = l.rfind(",", 0, 118)
            out.append(l[:cut + 1] + " &")
            l = "     " + l[cut + 1:]
        out.append(l)
    return "\n".join(out) + "\n"


def check(tier, seed):
    agg = Agg("C18", tier, seed)
    src = os.path.join(build.repo(), "src")
    work = tempfile.mkdtemp(prefix="masa-verif-c18.", dir=os.environ.get("VERIF_TMP", "/var/tmp"))
    samples = []
    nobs = 0

    def viol(key, msg, detail=None):
        agg.viols.append({"key": key, "msg": msg, "detail": detail or {}, "shard": "c18"})
    try:
        libdir = build.build_lib("asan")
        # ---- 1 + 2: compiler views of both sides
        protos = fortran_prototypes(src, work)
        # interfaces the module-scope dump does not show (nested in a contained procedure, ...): each compiled on its own and added
        hidden = []
        bodies = fortran_interface_bodies(src)
        seen_labels = {}
        for fname, label, body in bodies:
            seen_labels[label] = seen_labels.get(label, 0) + 1
        # a Fortran procedure binds the C symbol of ITS OWN name (the *_passthrough helpers bind the name without that suffix): an interface bound
        # to another symbol of the same signature compiles, links and type-checks, and calls the wrong function
        for fname, label, body in bodies:
            nobs += 1
            want = re.sub(r"_passthrough$", "", fname, flags=re.I)
            if label != want and label.lower() != want.lower():
                viol("fortran-interface-bound-to-another-symbol:" + fname, "masa.f90: procedure %s is bound to the C symbol '%s' (expected '%s')" % (fname, label, want))
            elif seen_labels[label] > 1:
                viol("fortran-label-bound-twice:" + label, "masa.f90: %d interfaces bind the C symbol '%s'" % (seen_labels[label], label))
        for k, (fname, label, body) in enumerate(bodies):
            if label in protos and seen_labels[label] == 1:
                continue
            sp = standalone_prototype(body, work, str(k))
            if sp is None:
                agg.harness_fail.append("could not derive the prototype of the bind(C) interface %s (%s) on its own" % (fname, label))
                continue
            lab2, pr = sp
            if label in protos and protos[label] == pr:
                continue
            key = label if label not in protos else "%s@%s" % (label, fname)
            hidden.append(key)
            protos[key] = pr
        txt = open(os.path.join(src, "masa.f90")).read()
        n_bind = len([1 for l in txt.splitlines() if re.search(r"bind\s*\(\s*C\s*,\s*name\s*=", l, re.I) and not l.lstrip().startswith("!")])
        cdefs = c_definitions(src, libdir, work, sorted(set(n.split("@")[0] for n in protos)))
        defined = defined_symbols(libdir)
        cbv = fortran_callback_by_value(src)
        for name in sorted(protos):
            fret, fargs = protos[name]
            nobs += 1
            cname = name.split("@")[0]
            if cname != name:
                cdefs[name] = cdefs.get(cname)
                if cdefs[name] is None:
                    del cdefs[name]
            if cname not in defined or name not in cdefs:
                viol("fortran-binds-undefined-symbol:" + name, "masa.f90 binds to '%s' which the C interface does not define" % name)
                continue
            cret, cargs = cdefs[name]
            ftypes = []
            for a in fargs:
                if re.search(r"\bfunct$", a):
                    byval = cbv.get(name, (False, ""))[0]
                    ftypes.append("double (*)(double)" if byval else "double (*)(double *)")
                else:
                    ftypes.append(strip_name(a))
            ctypes = [re.sub(r"\bconst ", "", c) for c in cargs]
            ftypes_n = [re.sub(r"\bconst ", "", f) for f in ftypes]
            if len(ftypes) != len(cargs):
                viol("fortran-arity:" + name, "%s: Fortran interface has %d arguments, the C definition %d" % (name, len(ftypes), len(cargs)), {"fortran": fargs, "c": cargs})
            else:
                for i, (f, c) in enumerate(zip(ftypes_n, ctypes)):
                    if f != c:
                        if "(*)" in c and "(*)" in f:
                            viol("fortran-callback-argument-convention:" + name, "%s: the module declares the callback's argument by reference (%s) but the C library calls it with a value (%s)" % (name, f, c), {"fortran": f, "c": c})
                        else:
                            viol("fortran-argument-type:%s:%d" % (name, i + 1), "%s argument %d: Fortran passes '%s', the C definition takes '%s'" % (name, i + 1, ftypes[i], cargs[i]), {"fortran": fargs, "c": cargs})
            if fret != cret:
                viol("fortran-result-type:%s:%s-vs-%s" % (name, fret, cret), "%s: Fortran declares result '%s' (subroutine = void), the C function returns '%s'" % (name, fret, cret))
            if len(samples) < 6:
                samples.append({"symbol": name, "fortran_as_compiled": "%s (%s)" % (fret, ", ".join(fargs)), "c_as_compiled": "%s (%s)" % (cret, ", ".join(cargs))})
        # ---- 4: header subset of library
        view_c = header_view(libdir)
        if view_c is None or len(view_c) < 50:
            agg.harness_fail.append("could not preprocess the generated masa.h as C")
            view_c = {}
        decls = sorted(set(header_c_decls(src)) | set(view_c))
        for d in decls:
            nobs += 1
            if d not in defined:
                viol("header-declares-undefined:" + d, "masa.h declares extern \"C\" %s but the library does not define it" % d)
        # ... in every configuration configure can produce (its AC_DEFINEs): the C wrappers compiled with those macros must still define every
        # function the header declares (under the same macros) and every symbol the Fortran module binds to
        configs = [("python", ["SWIG_INTERFACES"]), ("fortran", ["FORTRAN_INTERFACES"]), ("python+fortran", ["SWIG_INTERFACES", "FORTRAN_INTERFACES"]),
                   ("exceptions", ["MASA_EXCEPTIONS"]), ("strict-regression", ["MASA_STRICT_REGRESSION"])]
        for cname, macros in configs:
            o = os.path.join(work, "cmasa_%s.o" % cname.replace("+", "_"))
            rc, out, err = sh(["g++", "-std=gnu++17", "-O0", "-w", "-DHAVE_CONFIG_H", "-D" + build.GUARD] + ["-D%s=1" % m for m in macros] + ["-I", libdir, "-I", src, "-c", os.path.join(src, "cmasa.cpp"), "-o", o])
            nobs += 1
            if rc != 0:
                viol("c-wrappers-do-not-compile-in-configuration:" + cname, "cmasa.cpp does not compile with %s: %s" % (macros, err[-300:]))
                continue
            rc, out, err = sh(["nm", "-g", "--defined-only", o])
            dsy = set(l.split()[2] for l in out.splitlines() if len(l.split()) == 3 and l.split()[1] in ("T", "W"))
            hv = header_view(libdir, tuple("%s=1" % m for m in macros)) or {}
            for d in sorted(hv):
                if d not in dsy:
                    viol("header-declares-undefined-in-configuration:%s:%s" % (cname, d), "configuration '%s' (%s): masa.h declares %s but the C wrappers do not define it" % (cname, " ".join(macros), d))
            for name in sorted(set(n.split("@")[0] for n in protos)):
                if name not in dsy:
                    viol("fortran-binds-undefined-symbol-in-configuration:%s:%s" % (cname, name), "configuration '%s': masa.f90 binds to '%s' which the C wrappers do not define" % (cname, name))
        probe = os.path.join(work, "hdr_probe.c")
        with open(probe, "w") as f:
            f.write("#include <masa.h>\n#include <stdio.h>\nint main(void){ void* p[] = {%s}; printf(\"%%d\\n\", (int)(sizeof p/sizeof p[0])); return p[0]==0; }\n" % ", ".join("(void*)%s" % d for d in decls))
        rc, out, err = sh(["gcc", "-w", "-I", libdir, "-c", probe, "-o", probe + ".o"])
        link_ok = False
        if rc == 0:
            fl = build.FLAVOURS["asan"]
            rc, out, err = sh(["g++"] + fl["ld"] + [probe + ".o", os.path.join(libdir, "libmasa.a"), "-o", probe + ".exe"])
            if rc == 0:
                rc, out, err = sh([probe + ".exe"], env=dict(os.environ, ASAN_OPTIONS="detect_leaks=0"))
                link_ok = rc == 0 and out.strip() == str(len(decls))
        if not link_ok:
            missing = re.findall(r"undefined reference to `(\w+)'", err)
            for d in sorted(set(missing)):
                viol("header-declares-undefined:" + d, "a C program referencing every function declared in masa.h does not link: %s undefined" % d)
            if not missing:
                agg.harness_fail.append("header link probe failed: " + err[-400:])
        # ---- 5: SWIG (lexical only: swig is not installed in this sandbox)
        swig = open(os.path.join(src, "masa.i")).read()
        swig_nc = re.sub(r"//.*", "", swig)
        swig_nc = re.sub(r"%\{.*?%\}", "", swig_nc, flags=re.S)
        includes = re.findall(r'%include\s+"([^"]+)"', swig_nc)
        other_decl = [l for l in swig_nc.splitlines() if re.search(r"\b(extern|double|int|void)\b.*\(", l)]
        nobs += 1
        directives = sorted(set(re.findall(r"^\s*(%\w+|#\s*\w+)", swig_nc, re.M)) - {"%module", "%include"})
        if includes != ["masa.h"] or other_decl or directives:
            viol("swig-does-not-wrap-exactly-masa.h", "masa.i's declaration sources are %s plus %d own declarations and directives %s; expected exactly %%include \"masa.h\"" % (includes, len(other_decl), directives))
        # what SWIG would see: the header preprocessed with SWIG's own macros defined must declare exactly what a C compiler sees
        view_swig = header_view(libdir, ("SWIG", "SWIGPYTHON"))
        nobs += 1
        if view_swig is not None and view_c:
            for d in sorted(set(view_c) | set(view_swig)):
                if view_c.get(d) != view_swig.get(d):
                    viol("swig-view-of-header-differs:" + d, "masa.h declares %r to a C compiler but %r to SWIG's preprocessor (-DSWIG): the module would not wrap exactly the header" % (view_c.get(d), view_swig.get(d)))
        # ---- 3: execution through the real Fortran module
        exec_cmp = 0
        plan = make_plan(protos)
        with open(os.path.join(work, "plan.txt"), "w") as f:
            f.write(plan_text(plan))
        cb_attr = ""
        for k, (byval, attrs) in cbv.items():
            cb_attr = attrs.strip().strip(",").strip()
        with open(os.path.join(work, "drv.f90"), "w") as f:
            f.write(fortran_driver(plan, protos, cb_attr))
        rc1, o1, e1 = sh(["gcc", "-c", "-O0", "-g", os.path.join(src, "masa.f90"), "-o", "masa_f.o"], cwd=work)
        rc2, o2, e2 = sh(["gcc", "-c", "-O0", "-g", "-ffree-line-length-none", "drv.f90", "-o", "drv.o"], cwd=work) if rc1 == 0 else (1, "", "masa.f90 did not compile")
        if rc1 != 0 or rc2 != 0:
            viol("fortran-driver-does-not-compile", "a Fortran program calling every interface of masa.f90 as declared does not compile: " + (e1 + e2)[-600:])
        else:
            fl = build.FLAVOURS["asan"]
            rc, out, err = sh(["g++"] + fl["ld"] + ["drv.o", "masa_f.o", os.path.join(libdir, "libmasa.a"), "-lgfortran", "-lquadmath", "-lm", "-o", "drv"], cwd=work)
            if rc != 0:
                missing = sorted(set(re.findall(r"undefined reference to `(\w+)'", err)))
                for d in missing:
                    viol("fortran-binds-undefined-symbol:" + d, "the Fortran driver does not link: %s undefined" % d)
                if not missing:
                    agg.harness_fail.append("fortran driver link failed: " + err[-400:])
            else:
                truth = build.build_bin("asan", "c18_truth", ["common.cpp", "c18_truth.cpp"])
                env = dict(os.environ, ASAN_OPTIONS="detect_leaks=0:abort_on_error=0", VERIF_SPEC=os.path.join(VERIF, "spec"))
                rct, ot, et = sh([truth, "--plan", os.path.join(work, "plan.txt"), "--result", os.path.join(work, "truth.txt")], env=env)
                if rct != 0:
                    agg.harness_fail.append("c18_truth failed: " + et[-400:])
                rcf, of, ef = sh([os.path.join(work, "drv"), os.path.join(work, "fortran.txt")], cwd=work, env=env)
                tl = open(os.path.join(work, "truth.txt")).read().splitlines() if os.path.exists(os.path.join(work, "truth.txt")) else []
                fl_ = open(os.path.join(work, "fortran.txt")).read().splitlines() if os.path.exists(os.path.join(work, "fortran.txt")) else []
                for i, t in enumerate(tl):
                    if i >= len(fl_):
                        break
                    exec_cmp += 1
                    tt, ff = t.split(), fl_[i].split()
                    if tt != ff:
                        sym = tt[1] if len(tt) > 1 else tt[0]
                        viol("fortran-execution-differs:" + sym, "called through masa.f90, %s gives '%s'; the C++ <double> call gives '%s'" % (sym, " ".join(ff[:6]), " ".join(tt[:6])))
                if rcf != 0 or len(fl_) < len(tl):
                    nxt = tl[len(fl_)].split() if len(fl_) < len(tl) else ["?", "?"]
                    sym = nxt[1] if len(nxt) > 1 else nxt[0]
                    san = ""
                    for line in ef.splitlines():
                        if line.startswith("SUMMARY:") or "Program received signal" in line:
                            san = line.strip()[:160]
                            break
                    viol("fortran-call-crashed:" + sym, "the Fortran driver died (rc=%s, %s) while calling %s through the module's interface" % (rcf, san, sym), {"stderr": ef[-1500:]})
                if len(tl) > 3:
                    samples.append({"plan_line": plan_text(plan).splitlines()[3], "fortran": fl_[3] if len(fl_) > 3 else None, "cxx": tl[3]})
        agg.counts["interfaces_compared"] = len(protos)
        agg.counts["header_declarations_checked"] = len(decls)
        agg.counts["fortran_execution_comparisons"] = exec_cmp
        agg.shards = 1
        agg.samples = samples
        cov = {"evaluations": nobs + exec_cmp, "distinct_nontrivial": len(protos) + len(decls),
               "rule": "every bind(C,name=) interface of masa.f90 as the Fortran compiler sees it (gcc -fc-prototypes) vs the DWARF type of the C definition (gdb ptype on cmasa.cpp compiled -g): "
                       "existence, arity, each argument type and passing convention, result type; callback dummies compared through the module's abstract interface; every extern \"C\" declaration "
                       "of masa.h defined (nm) and a C program referencing all of them links and runs; a generated Fortran program using the real module calls every interface on 6 solutions and "
                       "is compared bit for bit with the C++ <double> API executing the same plan under ASan; masa.i checked lexically. Distinct = symbols.",
               "exhaustive": True, "bind_c_interfaces_in_source": n_bind, "interfaces_seen_by_compiler": len(protos), "interface_bodies_cut_from_the_text(any nesting depth)": len(bodies), "interfaces_invisible_at_module_scope": hidden, "configurations_of_the_c_wrappers_checked": ["default", "python", "fortran", "python+fortran", "exceptions", "strict-regression"], "header_declarations": len(decls),
               "fortran_execution_comparisons": exec_cmp, "callback_argument_declared_by_value": {k: v[0] for k, v in cbv.items()},
               "swig": "swig is not installed: masa.i is checked lexically (sole declaration source %include \"masa.h\", no %ignore/%rename/#define) and the generated masa.h is preprocessed as C with and without -DSWIG -DSWIGPYTHON: both views must declare the same functions"}
        floors = [("compiler saw every bind(C,name=) interface of the source", len(protos) == n_bind and n_bind >= 80),
                  ("every bind(C) procedure header of the source was cut out with its body (any nesting depth)", len(bodies) >= n_bind),
                  ("at least 40 extern C declarations in masa.h", len(decls) >= 40),
                  ("Fortran execution compared at least 400 results", exec_cmp >= 400 or any(v["key"].startswith("fortran-") for v in agg.viols))]
        return finish(agg, "exploration", cov, ["gfortran's -fc-prototypes and gdb's DWARF reader report the compilers' own view of both sides", "SWIG clause: lexical only (tool absent)"], floors)
    finally:
        shutil.rmtree(work, ignore_errors=True)
