"""Build the code under test (from $VERIF_REPO, default /repo, *current working tree*) and
the harness binaries that link against it.  Nothing here uses /repo's in-tree autotools objects.

Cache layout (git-ignored):
  /verif/.cache/lib-<flavour>-<key>/   masa.h config.h *.o libmasa.a DONE
  /verif/.cache/lib-<flavour>-<key>/bin-<hkey>/<binary>
key  = sha256 over every source file of $VERIF_REPO/src + the flavour's flags
hkey = sha256 over the harness sources the binary is made from (+ headers of harness/)
so any edit under /repo/src gives a new key and the check runs code rebuilt from the tree.
"""
import fcntl
import hashlib
import os
import re
import shutil
import subprocess
import sys
import time
from concurrent.futures import ThreadPoolExecutor

VERIF = os.path.dirname(os.path.dirname(os.path.abspath(__file__)))
CACHE = os.environ.get("VERIF_CACHE", os.path.join(VERIF, ".cache"))
HARNESS = os.path.join(VERIF, "harness")
GUARD = "MASA_VERIF"


def repo():
    return os.path.abspath(os.environ.get("VERIF_REPO", "/repo"))


CXX = "g++"
BASE = ["-std=gnu++17", "-g1", "-fno-unsafe-math-optimizations", "-D" + GUARD, "-w", "-pthread"]
SAN = ["-fsanitize=address,undefined", "-fno-sanitize-recover=all", "-fno-omit-frame-pointer"]
FLAVOURS = {
    # the flags configure picks (AX_CXX_MINOPT): -O0, no unsafe math
    "plain": {"cxx": ["-O0"] + BASE, "exc": False, "ld": []},
    "opt": {"cxx": ["-O2"] + BASE, "exc": False, "ld": []},
    # further configurations for C09's thorough tier: -O3, and another compiler (clang 14, library objects only; the harness needs g++ for __float128)
    "opt3": {"cxx": ["-O3"] + BASE, "exc": False, "ld": []},
    # a release-style configuration: assertions compiled out
    "ndebug": {"cxx": ["-O2", "-DNDEBUG"] + BASE, "exc": False, "ld": []},
    "clang": {"cxx": ["-O2"] + BASE, "exc": False, "ld": [], "cc": "clang++"},
    # clang 14's ASan+UBSan (its -fsanitize=undefined has checks g++ lacks, e.g. calls through a function pointer of the wrong type); harness built by clang too
    # (object-size is switched off: known false alarm of clang 14 on empty classes with zero-length arrays)
    "clang-asan": {"cxx": ["-O1"] + BASE + SAN + ["-fsanitize=function,float-cast-overflow", "-fno-sanitize=object-size"], "exc": True,
                   "ld": SAN + ["-fsanitize=function,float-cast-overflow", "-fno-sanitize=object-size"], "cc": "clang++", "hcc": "clang++"},
    "exc": {"cxx": ["-O0"] + BASE, "exc": True, "ld": []},
    "asan": {"cxx": ["-O1"] + BASE + SAN, "exc": False, "ld": SAN},
    "exc-asan": {"cxx": ["-O1"] + BASE + SAN, "exc": True, "ld": SAN},
    # guard OFF, used only to show the hooks vanish
    "nohook": {"cxx": ["-O0"] + [f for f in BASE if f != "-D" + GUARD], "exc": False, "ld": []},
}


def _sha(paths, extra=""):
    h = hashlib.sha256()
    h.update(extra.encode())
    for p in sorted(paths):
        h.update(os.path.basename(p).encode())
        with open(p, "rb") as f:
            h.update(f.read())
    return h.hexdigest()[:16]


def lib_sources(src):
    """cc_sources of src/Makefile.am (so a newly registered file is picked up); fallback: glob."""
    names = []
    try:
        txt = open(os.path.join(src, "Makefile.am")).read().replace("\\\n", " ")
        for m in re.finditer(r"^cc_sources\s*\+?=\s*(.*)$", txt, re.M):
            names += m.group(1).split()
    except OSError:
        pass
    names = [n for n in names if n.endswith(".cpp") and os.path.exists(os.path.join(src, n))]
    if not names:
        names = [n for n in os.listdir(src) if n.endswith(".cpp") and n != "version.cpp"]
    return sorted(set(names))


def src_files(src):
    out = []
    for n in os.listdir(src):
        if n.endswith((".cpp", ".h", ".hpp", ".in", ".f90", ".i", ".am")) and n not in ("masa.h", "Makefile.in"):
            out.append(os.path.join(src, n))
    return out


def src_key(flavour):
    fl = FLAVOURS[flavour]
    return _sha(src_files(os.path.join(repo(), "src")), flavour + " ".join(fl["cxx"]) + str(fl["exc"]) + fl.get("cc", ""))


def gen_headers(src, out):
    txt = open(os.path.join(src, "masa.h.in")).read()
    sub = {"GENERIC_MAJOR_VERSION": "0", "GENERIC_MINOR_VERSION": "51", "GENERIC_MICRO_VERSION": "1",
           "BUILD_USER": "verif", "BUILD_ARCH": "x86_64", "BUILD_HOST": "verif", "BUILD_DATE": "n/a",
           "BUILD_VERSION": "worktree", "VERSION": "0.51.1", "BUILD_DEVSTATUS": "verif build",
           "CXX": "g++", "CXXFLAGS": "", "FC": "", "FCFLAGS": ""}
    txt = re.sub(r"@([A-Z_]+)@", lambda m: sub.get(m.group(1), ""), txt)
    with open(os.path.join(out, "masa.h"), "w") as f:
        f.write(txt)


def _run(cmd, log, cwd=None):
    p = subprocess.run(cmd, stdout=subprocess.PIPE, stderr=subprocess.STDOUT, cwd=cwd)
    if p.returncode != 0:
        with open(log, "ab") as f:
            f.write((" ".join(cmd) + "\n").encode() + p.stdout + b"\n")
    return p.returncode


class BuildError(Exception):
    pass


def _touch(p):
    try:
        os.utime(p, None)
    except OSError:
        pass


def prune(keep_dir):
    """keep the 3 most recently used library builds per flavour; never one used in the last 45 min."""
    try:
        ents = [e for e in os.listdir(CACHE) if e.startswith("lib-") and os.path.isdir(os.path.join(CACHE, e))]
    except OSError:
        return
    by = {}
    for e in ents:
        fl = e[4:e.rfind("-")]
        by.setdefault(fl, []).append(e)
    now = time.time()
    for fl, es in by.items():
        es.sort(key=lambda e: os.path.getmtime(os.path.join(CACHE, e)), reverse=True)
        for e in es[3:]:
            p = os.path.join(CACHE, e)
            if p == keep_dir or now - os.path.getmtime(p) < 45 * 60:
                continue
            shutil.rmtree(p, ignore_errors=True)
            try:
                os.unlink(p + ".lock")
            except OSError:
                pass


def build_lib(flavour, quiet=False):
    """returns the directory holding libmasa.a + masa.h + config.h for this flavour of the current tree"""
    fl = FLAVOURS[flavour]
    src = os.path.join(repo(), "src")
    key = src_key(flavour)
    d = os.path.join(CACHE, "lib-%s-%s" % (flavour, key))
    os.makedirs(CACHE, exist_ok=True)
    with open(d + ".lock", "w") as lk:
        fcntl.flock(lk, fcntl.LOCK_EX)
        if os.path.exists(os.path.join(d, "DONE")):
            _touch(d)
            return d
        t0 = time.time()
        shutil.rmtree(d, ignore_errors=True)
        os.makedirs(d)
        gen_headers(src, d)
        with open(os.path.join(d, "config.h"), "w") as f:
            f.write("/* written by /verif/vlib/build.py */\n#define HAVE_CONFIG_H 1\n")
            if fl["exc"]:
                f.write("#define MASA_EXCEPTIONS 1\n")
        log = os.path.join(d, "build.log")
        names = lib_sources(src)

        def cc(n):
            o = os.path.join(d, n[:-4] + ".o")
            return _run([fl.get("cc", CXX)] + fl["cxx"] + ["-DHAVE_CONFIG_H", "-I", d, "-I", src, "-c", os.path.join(src, n), "-o", o], log)

        with ThreadPoolExecutor(16) as ex:
            rcs = list(ex.map(cc, names))
        if any(rcs):
            raise BuildError("library build failed (%s): see %s\n%s" % (flavour, log, open(log, errors="replace").read()[-3000:]))
        objs = [os.path.join(d, n[:-4] + ".o") for n in names]
        if _run(["ar", "rcs", os.path.join(d, "libmasa.a")] + objs, log):
            raise BuildError("ar failed: see " + log)
        with open(os.path.join(d, "DONE"), "w") as f:
            f.write("%s %s %.1fs\n" % (flavour, repo(), time.time() - t0))
        if not quiet:
            sys.stderr.write("[build] %s library built from %s in %.1fs\n" % (flavour, src, time.time() - t0))
        prune(d)
        return d


def harness_headers():
    out = []
    for root, _, files in os.walk(HARNESS):
        for n in files:
            if n.endswith((".hpp", ".h", ".def", ".inc")):
                out.append(os.path.join(root, n))
    return out


def build_bin(flavour, name, sources, extra_cxx=(), extra_ld=(), opt=None, whole_archive=False):
    """compile harness sources (paths relative to harness/) and link with the flavour's libmasa.a"""
    fl = FLAVOURS[flavour]
    libd = build_lib(flavour)
    srcs = [os.path.join(HARNESS, s) for s in sources]
    cxx = list(fl["cxx"])
    if opt:  # harness-side optimisation (the oracle is ours; the library keeps its own flags)
        cxx = [opt if f in ("-O0", "-O1", "-O2", "-O3") else f for f in cxx]
    hkey = _sha(srcs + harness_headers(), name + " ".join(cxx) + " ".join(extra_cxx) + " ".join(extra_ld) + str(whole_archive) + fl.get("hcc", ""))
    bd = os.path.join(libd, "bin-" + hkey)
    exe = os.path.join(bd, name)
    with open(os.path.join(libd, "bin-%s.lock" % hkey), "w") as lk:
        fcntl.flock(lk, fcntl.LOCK_EX)
        if os.path.exists(exe):
            return exe
        t0 = time.time()
        os.makedirs(bd, exist_ok=True)
        log = os.path.join(bd, "build.log")
        src = os.path.join(repo(), "src")

        def cc(s):
            o = os.path.join(bd, re.sub(r"[^A-Za-z0-9]", "_", os.path.relpath(s, HARNESS)) + ".o")
            if s.endswith(".c"):
                cmd = ["gcc"] + [f for f in cxx if not f.startswith("-std=")] + ["-I", libd, "-I", HARNESS, "-c", s, "-o", o]
            else:
                cmd = [fl.get("hcc", CXX)] + cxx + list(extra_cxx) + ["-I", libd, "-I", src, "-I", HARNESS, "-c", s, "-o", o]
            return _run(cmd, log), o

        with ThreadPoolExecutor(16) as ex:
            res = list(ex.map(cc, srcs))
        if any(r for r, _ in res):
            raise BuildError("harness build failed (%s/%s): see %s\n%s" % (flavour, name, log, open(log, errors="replace").read()[-4000:]))
        tmp = exe + ".tmp"
        cmd = [fl.get("hcc", CXX)] + fl["ld"] + ["-o", tmp] + [o for _, o in res] + (["-Wl,--whole-archive", os.path.join(libd, "libmasa.a"), "-Wl,--no-whole-archive"] if whole_archive else [os.path.join(libd, "libmasa.a")]) + list(extra_ld) + ([] if fl.get("hcc") else ["-lquadmath"]) + ["-lm"]
        if _run(cmd, log):
            raise BuildError("harness link failed (%s/%s): see %s\n%s" % (flavour, name, log, open(log, errors="replace").read()[-4000:]))
        os.rename(tmp, exe)
        sys.stderr.write("[build] %s/%s built in %.1fs\n" % (flavour, name, time.time() - t0))
        return exe


if __name__ == "__main__":
    for f in sys.argv[1:] or ["plain"]:
        print(build_lib(f))
