"""Shard runner, event aggregation, known-findings matching, evidence + verdict."""
import json
import os
import signal
import subprocess
import sys
import tempfile
import time
from concurrent.futures import ThreadPoolExecutor

VERIF = os.path.dirname(os.path.dirname(os.path.abspath(__file__)))
REPLAY_DIR = os.path.join(VERIF, "replay")
KNOWN = os.path.join(VERIF, "known_findings.json")
NPROC = int(os.environ.get("VERIF_JOBS", "16"))


class Inconclusive(Exception):
    """harness failure / floor not met / watchdog: exit 2, never a violation"""


class Shard:
    def __init__(self, exe, args, label, env=None, timeout=1800, wrapper=None, expect_exit=(0,)):
        self.exe, self.args, self.label = exe, list(args), label
        self.env, self.timeout, self.wrapper = env or {}, timeout, wrapper or []
        self.expect_exit = expect_exit
        self.rc = None
        self.events = []
        self.stderr = ""
        self.wall = 0.0
        self.timed_out = False


def _run_one(sh):
    fd, out = tempfile.mkstemp(prefix="vh-", suffix=".jsonl", dir=os.environ.get("VERIF_TMP", "/var/tmp"))
    os.close(fd)
    env = dict(os.environ)
    env.update(sh.env)
    env.setdefault("VERIF_SPEC", os.path.join(VERIF, "spec"))
    cmd = sh.wrapper + [sh.exe] + sh.args + ["--out", out]
    t0 = time.time()
    for attempt in (0, 1):
        sh.timed_out = False
        open(out, "w").close()
        try:
            p = subprocess.run(cmd, stdin=subprocess.DEVNULL, stdout=subprocess.DEVNULL, stderr=subprocess.PIPE, env=env, timeout=sh.timeout)
            sh.rc = p.returncode
            sh.stderr = p.stderr.decode(errors="replace")[-20000:]
            break
        except subprocess.TimeoutExpired as e:
            sh.timed_out = True  # a hang is re-run once before being reported
            sh.rc = -999
            sh.stderr = (e.stderr or b"").decode(errors="replace")[-20000:]
    sh.wall = time.time() - t0
    evs = []
    with open(out, errors="replace") as f:
        for line in f:
            line = line.strip()
            if not line:
                continue
            try:
                evs.append(json.loads(line))
            except ValueError:
                evs.append({"t": "garbled", "raw": line[:300]})
    os.unlink(out)
    sh.events = evs
    return sh


def run_shards(shards, jobs=None):
    with ThreadPoolExecutor(jobs or NPROC) as ex:
        return list(ex.map(_run_one, shards))


class Agg:
    """merges the event streams of all shards of one check"""

    def __init__(self, prop, tier, seed):
        self.prop, self.tier, self.seed = prop, tier, seed
        self.counts = {}
        self.distinct = {}
        self.samples = []
        self.stats = {}
        self.viols = []      # dicts: key,msg,detail,shard
        self.notes = []
        self.harness_fail = []
        self.t0 = time.time()
        self.shards = 0

    def add_shards(self, shards, crash_is_violation=True):
        for sh in shards:
            self.shards += 1
            crash_ctx = None
            for e in sh.events:
                t = e.get("t")
                if t == "count":
                    self.counts[e["name"]] = self.counts.get(e["name"], 0) + e["n"]
                elif t == "distinct":
                    self.distinct.setdefault(e["name"], set()).add(e["item"])
                elif t == "sample":
                    if len(self.samples) < 400:
                        self.samples.append(e["v"])
                elif t == "stat":
                    self.stats.setdefault(e["name"], []).append(e["v"])
                elif t == "viol":
                    if e.get("prop") in (None, "", self.prop, "*"):
                        self.viols.append({"key": e["key"], "msg": e.get("msg", ""), "detail": e.get("detail", {}), "shard": sh.label})
                elif t == "crash":
                    crash_ctx = e
                elif t == "harness_fail":
                    self.harness_fail.append("%s: %s" % (sh.label, e.get("msg")))
                elif t == "garbled":
                    pass
            ended = any(e.get("t") == "end" for e in sh.events)
            if sh.timed_out:
                # watchdog: inconclusive, never a violation (already re-run once)
                self.harness_fail.append("%s: watchdog fired twice after %ds" % (sh.label, sh.timeout))
            elif sh.rc == 2 or any(e.get("t") == "harness_fail" for e in sh.events):
                if sh.rc == 2 and not any(e.get("t") == "harness_fail" for e in sh.events):
                    self.harness_fail.append("%s: harness exit 2: %s" % (sh.label, sh.stderr[-600:]))
            elif not ended or sh.rc not in sh.expect_exit:
                # the process running the code under test did not reach the end of its workload
                ctx = (crash_ctx or {}).get("ctx", "")
                what = (crash_ctx or {}).get("what", "rc=%s" % sh.rc)
                san = _sanitizer_summary(sh.stderr) or _memcheck_summary(sh.stderr)
                leaks = _leak_functions(sh.stderr) if ended else []
                if leaks or (ended and ("LeakSanitizer" in sh.stderr or "definitely lost" in sh.stderr)):
                    # the workload completed; the tool found unreachable memory at exit
                    for fn in (leaks or ["(unattributed)"]):
                        self.viols.append({"key": "leak:" + fn, "msg": "memory allocated under %s is unreachable at process exit" % fn,
                                           "detail": {"stderr_tail": sh.stderr[-3000:], "rc": sh.rc}, "shard": sh.label})
                elif crash_is_violation:
                    key = "crash:%s:%s" % (san or what, (crash_ctx or {}).get("ctxkey", ctx)[:120])
                    self.viols.append({"key": key, "msg": "code under test terminated abnormally (%s) at: %s" % (san or what, ctx),
                                       "detail": {"stderr_tail": sh.stderr[-3000:], "rc": sh.rc, "ctx": ctx}, "shard": sh.label})
                else:
                    self.harness_fail.append("%s: rc=%s %s" % (sh.label, sh.rc, sh.stderr[-600:]))

    def count(self, name):
        return self.counts.get(name, 0)

    def ndistinct(self, name):
        return len(self.distinct.get(name, ()))


def _leak_functions(err):
    """library functions at the top of LeakSanitizer / memcheck leak stacks (stable key material)"""
    import re
    fns = []
    blocks = re.split(r"\n(?=(?:Direct|Indirect) leak of |==\d+== [\d,]+ (?:\([\d, a-z]+\) )?bytes in )", err)
    for b in blocks:
        if "leak of" not in b and "definitely lost" not in b and "indirectly lost" not in b:
            continue
        for line in b.splitlines():
            m = re.search(r"(?:in|by 0x[0-9A-Fa-f]+:|at 0x[0-9A-Fa-f]+:) ((?:MASA|nsctpl)::[\w:<>~ ,*&]+?)(?:\(| \(|$)", line)
            if m and "/repo/src" in line or (m and "masa_" in line):
                fn = re.sub(r"<[^<>]*>", "", m.group(1))
                fn = re.sub(r"<[^<>]*>", "", fn).strip()
                if fn not in fns:
                    fns.append(fn)
                break
    return fns


def _memcheck_summary(err):
    import re
    kinds = ["Conditional jump or move depends on uninitialised value", "Use of uninitialised value", "Invalid read", "Invalid write", "Invalid free",
             "Mismatched free", "Source and destination overlap", "Syscall param", "Argument .* of function .* has a fishy"]
    lines = err.splitlines()
    for i, line in enumerate(lines):
        for k in kinds:
            if re.search(k, line):
                fn = ""
                for l2 in lines[i + 1:i + 12]:
                    m = re.search(r"(?:at|by) 0x[0-9A-Fa-f]+: ([^(]+)", l2)
                    if m and ("MASA::" in l2 or "masa_" in l2 or "nsctpl" in l2):
                        fn = re.sub(r"<[^<>]*>", "", re.sub(r"<[^<>]*>", "", m.group(1))).strip()
                        break
                return "memcheck: %s in %s" % (re.sub(r" of size \d+", "", k), fn)
    return ""


def _sanitizer_summary(err):
    for line in err.splitlines():
        if line.startswith("SUMMARY: "):
            s = line[len("SUMMARY: "):]
            # strip addresses/paths but keep tool, kind and function
            parts = s.split()
            kind = " ".join(parts[:2])
            fn = ""
            if " in " in s:
                fn = s.split(" in ")[-1].split("(")[0].strip()
            return ("%s in %s" % (kind, fn)).strip()
        if "runtime error:" in line:
            return "UBSan: " + line.split("runtime error:")[1].strip()[:80]
    return ""


def load_known():
    try:
        k = json.load(open(KNOWN))
    except OSError:
        return {"findings": [], "fixed": []}
    return k


def finish(agg, level, coverage, assumptions, floors=()):
    """write evidence, print verdict lines, return exit code.
    floors: list of (description, ok_bool): a run that observed too little is inconclusive."""
    prop = agg.prop
    known = load_known()
    listed = {f["key"]: f for f in known.get("findings", []) if f.get("property") == prop or prop in f.get("also", [])}
    by_key = {}
    for v in agg.viols:
        by_key.setdefault(v["key"], []).append(v)
    new = {k: vs for k, vs in by_key.items() if k not in listed}
    seen_known = {k: vs for k, vs in by_key.items() if k in listed}
    os.makedirs(REPLAY_DIR, exist_ok=True)
    lines = []
    for k in sorted(seen_known):
        lines.append("KNOWN-FINDING: property=%s %s [%s] (%d occurrences this run)" % (prop, listed[k].get("what", ""), k, len(seen_known[k])))
    rc = 0
    for i, k in enumerate(sorted(new)):
        vs = new[k]
        path = os.path.join(REPLAY_DIR, "%s-%s-%d-%d.json" % (prop, agg.tier, agg.seed, i))
        with open(path, "w") as f:
            json.dump({"property": prop, "key": k, "seed": agg.seed, "tier": agg.tier, "repo": os.environ.get("VERIF_REPO", "/repo"),
                       "occurrences": len(vs), "first": vs[:5]}, f, indent=1, default=str)
        if i < 30:
            lines.append("VIOLATION property=%s replay=%s" % (prop, path))
            lines.append("  key=%s  x%d  %s" % (k, len(vs), vs[0]["msg"][:400]))
        elif i == 30:
            lines.append("  ... and %d more violation keys (all written to %s/%s-%s-%d-*.json and listed in the evidence file)" % (len(new) - 30, REPLAY_DIR, prop, agg.tier, agg.seed))
        rc = 1
    failed_floors = [d for d, ok in floors if not ok]
    if rc == 0 and (agg.harness_fail or failed_floors):
        rc = 2
    cov = dict(coverage)
    cov.setdefault("evaluations", sum(agg.counts.values()))
    cov["counts"] = dict(sorted(agg.counts.items()))
    cov["distinct_sets"] = {k: len(v) for k, v in sorted(agg.distinct.items())}
    cov.setdefault("samples", agg.samples[:12] or ["(no sample recorded)"])
    cov["shards"] = agg.shards
    cov["environment_variables_the_code_under_test_consulted(unknown to the harness; re-run with each set)"] = getattr(agg, "env_names", [])
    cov["known_findings_seen"] = {k: len(v) for k, v in sorted(seen_known.items())}
    cov["new_violation_keys"] = sorted(new)
    cov["floors"] = [{"floor": d, "met": bool(ok)} for d, ok in floors]
    if agg.harness_fail:
        cov["inconclusive_reasons"] = agg.harness_fail[:20]
    ev = {"property_id": prop, "tier": agg.tier, "seed": agg.seed, "level": level, "coverage": cov,
          "assumptions": list(assumptions), "wall_s": round(time.time() - agg.t0, 2), "violations": len(new),
          "verdict": {0: "held on everything explored", 1: "violated", 2: "inconclusive"}[rc],
          "repo": os.environ.get("VERIF_REPO", "/repo")}
    os.makedirs(os.path.join(VERIF, "evidence"), exist_ok=True)
    with open(os.path.join(VERIF, "evidence", prop + ".json"), "w") as f:
        json.dump(ev, f, indent=1, default=str)
        f.write("\n")
    for l in lines:
        print(l)
    if rc == 2:
        for r in agg.harness_fail[:10]:
            print("INCONCLUSIVE: " + r)
        for d in failed_floors:
            print("INCONCLUSIVE: floor not met: " + d)
    print("%s %s tier=%s seed=%d: %s; %d comparisons/steps, %d shards, %.1fs" % (
        prop, {0: "OK", 1: "VIOLATED", 2: "INCONCLUSIVE"}[rc], agg.tier, agg.seed,
        ev["verdict"], cov["evaluations"], agg.shards, ev["wall_s"]))
    sys.stdout.flush()
    return rc
